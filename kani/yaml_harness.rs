#[cfg(kani)]
mod verif_c19 {
    use super::*;
    use crate::{MarkedYaml, MarkedYamlOwned, ScalarOwned, YamlData, YamlOwned};
    use saphyr_parser::{Marker, ScalarStyle, Span};
    use std::hash::{Hash, Hasher};

    fn same_leaf(a: &Yaml<'_>, b: &Yaml<'_>) -> bool {
        match (a, b) {
            (Yaml::Value(Scalar::Null), Yaml::Value(Scalar::Null)) => true,
            (Yaml::Value(Scalar::Boolean(x)), Yaml::Value(Scalar::Boolean(y))) => x == y,
            (Yaml::Value(Scalar::Integer(x)), Yaml::Value(Scalar::Integer(y))) => x == y,
            (Yaml::Value(Scalar::String(x)), Yaml::Value(Scalar::String(y))) => x.as_bytes() == y.as_bytes(),
            (Yaml::Alias(x), Yaml::Alias(y)) => x == y,
            (Yaml::BadValue, Yaml::BadValue) => true,
            _ => false,
        }
    }
    fn clone_leaf(a: &Yaml<'static>) -> Yaml<'static> {
        match a {
            Yaml::Value(Scalar::Null) => Yaml::Value(Scalar::Null),
            Yaml::Value(Scalar::Boolean(x)) => Yaml::Value(Scalar::Boolean(*x)),
            Yaml::Value(Scalar::Integer(x)) => Yaml::Value(Scalar::Integer(*x)),
            Yaml::Value(Scalar::String(_)) => Yaml::Value(Scalar::String(Cow::Borrowed("ab"))),
            Yaml::Alias(x) => Yaml::Alias(*x),
            _ => Yaml::BadValue,
        }
    }

    // resolving leaves an already-resolved node untouched: one harness per leaf shape (a concrete variant lets
    // CBMC prune the drop glue of the other variants), full i64 / bool / usize range inside the shape
    macro_rules! keeps_resolved {
        ($name:ident, $rname:ident, $mk:expr) => {
            #[kani::proof]
            #[kani::unwind(12)]
            fn $name() {
                let mut n: Yaml<'static> = $mk;
                let before = clone_leaf(&n);
                let ok = n.parse_representation();
                assert!(ok, "parse_representation must report success on a resolved node");
                assert!(same_leaf(&n, &before), "parse_representation changed an already-resolved node");
                core::mem::forget(n);
            }
            // the recursive resolver on a resolved leaf (its catch-all arm).  Containers are out of reach of
            // CBMC here: a one-element Vec<Yaml> (allocation, iter_mut().map().fold(), recursive drop glue) did not
            // finish in 400 s even with mem::swap stubbed.
            #[kani::proof]
            #[kani::unwind(12)]
            fn $rname() {
                let a: Yaml<'static> = $mk;
                let ca = clone_leaf(&a);
                let mut leaf = a;
                assert!(leaf.parse_representation_recursive());
                assert!(same_leaf(&leaf, &ca), "recursive resolution changed a resolved leaf");
                core::mem::forget(leaf);
            }
        };
    }
    keeps_resolved!(c19_keeps_resolved_null, c19_recursive_keeps_null, Yaml::Value(Scalar::Null));
    keeps_resolved!(c19_keeps_resolved_bool, c19_recursive_keeps_bool, Yaml::Value(Scalar::Boolean(kani::any())));
    keeps_resolved!(c19_keeps_resolved_int, c19_recursive_keeps_int, Yaml::Value(Scalar::Integer(kani::any())));
    // (a String leaf - Cow<str> - did not finish within 240 s and is not part of the registered set)
    keeps_resolved!(c19_keeps_resolved_alias, c19_recursive_keeps_alias, Yaml::Alias(kani::any()));
    keeps_resolved!(c19_keeps_resolved_bad, c19_recursive_keeps_bad, Yaml::BadValue);

    // deferred == eager resolution of an untagged Representation node.  With 1-2 *symbolic* text bytes this did not
    // finish within 300 s per harness (the resolver itself is the subject of the C08 harnesses), so the text is a
    // concrete type-like word and only the style varies: a plain "1" / "~" / "true" resolves to its typed value, the
    // same text in a quoted or block style stays a string - exactly what eager loading
    // (Scalar::parse_from_cow_and_metadata) gives.  (Without the stub of f64::from_str below, the plain style did not
    // finish in 400 s even for these concrete texts.)
    // f64::from_str is never reached for the texts used below ("1" is an integer, "~" null, "true" a boolean before
    // the float parser is tried); CBMC cannot know that without unrolling the parser, so it is stubbed out
    fn f64_never(_s: &str) -> Result<f64, core::num::ParseFloatError> {
        kani::assume(false);
        "x".parse::<f64>()
    }
    macro_rules! deferred_eq_eager {
        ($name:ident, $text:expr, $style:expr) => {
            #[kani::proof]
            #[kani::unwind(12)]
            #[kani::stub(<f64 as core::str::FromStr>::from_str, f64_never)]
            fn $name() {
                let mut n: Yaml<'static> = Yaml::Representation(Cow::Borrowed($text), $style, None);
                let ok = n.parse_representation();
                let eager = Scalar::parse_from_cow_and_metadata(Cow::Borrowed($text), $style, None);
                match eager {
                    Some(sc) => {
                        let e = Yaml::Value(sc);
                        assert!(ok, "deferred resolution fails where eager resolution succeeds");
                        assert!(same_leaf(&n, &e), "deferred resolution differs from eager resolution");
                        core::mem::forget(e);
                    }
                    None => assert!(!ok, "deferred resolution succeeds where eager resolution fails"),
                }
                core::mem::forget(n);
            }
        };
    }
    deferred_eq_eager!(c19_deferred_int_plain, "1", ScalarStyle::Plain);
    deferred_eq_eager!(c19_deferred_null_plain, "~", ScalarStyle::Plain);
    deferred_eq_eager!(c19_deferred_bool_plain, "true", ScalarStyle::Plain);
    deferred_eq_eager!(c19_deferred_int_dq, "1", ScalarStyle::DoubleQuoted);
    deferred_eq_eager!(c19_deferred_int_sq, "1", ScalarStyle::SingleQuoted);
    deferred_eq_eager!(c19_deferred_int_literal, "1", ScalarStyle::Literal);
    deferred_eq_eager!(c19_deferred_null_dq, "~", ScalarStyle::DoubleQuoted);
    deferred_eq_eager!(c19_deferred_bool_folded, "true", ScalarStyle::Folded);

    // converting a borrowed scalar to an owned one and back preserves it
    #[kani::proof]
    #[kani::unwind(8)]
    fn c19_scalar_owned_round_trip() {
        let k: u8 = kani::any();
        let s = match k {
            0 => Scalar::Null,
            1 => Scalar::Boolean(kani::any()),
            2 => Scalar::Integer(kani::any()),
            _ => Scalar::String(Cow::Borrowed("ab")),
        };
        let copy = match &s {
            Scalar::Null => Scalar::Null,
            Scalar::Boolean(b) => Scalar::Boolean(*b),
            Scalar::Integer(i) => Scalar::Integer(*i),
            _ => Scalar::String(Cow::Borrowed("ab")),
        };
        let owned: ScalarOwned = s.into_owned();
        let back = owned.as_scalar();
        let same = match (&back, &copy) {
            (Scalar::Null, Scalar::Null) => true,
            (Scalar::Boolean(x), Scalar::Boolean(y)) => x == y,
            (Scalar::Integer(x), Scalar::Integer(y)) => x == y,
            (Scalar::String(x), Scalar::String(y)) => x.as_bytes() == y.as_bytes(),
            _ => false,
        };
        assert!(same, "Scalar -> ScalarOwned -> Scalar changed the value");
    }

    // from_bare_yaml of every node type keeps the data of a leaf (one harness per leaf shape, see above)
    macro_rules! from_bare {
        ($ny:ident, $nm:ident, $no:ident, $mk:expr) => {
            #[kani::proof]
            #[kani::unwind(12)]
            fn $ny() {
                let a: Yaml<'static> = $mk;
                let ca = clone_leaf(&a);
                let y = <Yaml as LoadableYamlNode>::from_bare_yaml(a);
                assert!(same_leaf(&y, &ca), "Yaml::from_bare_yaml changed leaf data");
                core::mem::forget(y);
            }
            #[kani::proof]
            #[kani::unwind(12)]
            fn $nm() {
                let a: Yaml<'static> = $mk;
                let ca = clone_leaf(&a);
                let m = <MarkedYaml as LoadableYamlNode>::from_bare_yaml(a);
                let ok_m = match (&m.data, &ca) {
                    (YamlData::Value(Scalar::Null), Yaml::Value(Scalar::Null)) => true,
                    (YamlData::Value(Scalar::Boolean(x)), Yaml::Value(Scalar::Boolean(y))) => x == y,
                    (YamlData::Value(Scalar::Integer(x)), Yaml::Value(Scalar::Integer(y))) => x == y,
                    (YamlData::Value(Scalar::String(x)), Yaml::Value(Scalar::String(y))) => x.as_bytes() == y.as_bytes(),
                    (YamlData::Alias(x), Yaml::Alias(y)) => x == y,
                    (YamlData::BadValue, Yaml::BadValue) => true,
                    _ => false,
                };
                assert!(ok_m, "MarkedYaml::from_bare_yaml changed leaf data");
                core::mem::forget(m);
            }
            #[kani::proof]
            #[kani::unwind(12)]
            fn $no() {
                let a: Yaml<'static> = $mk;
                let ca = clone_leaf(&a);
                let o = <YamlOwned as LoadableYamlNode>::from_bare_yaml(a);
                let ok_o = match (&o, &ca) {
                    (YamlOwned::Value(ScalarOwned::Null), Yaml::Value(Scalar::Null)) => true,
                    (YamlOwned::Value(ScalarOwned::Boolean(x)), Yaml::Value(Scalar::Boolean(y))) => x == y,
                    (YamlOwned::Value(ScalarOwned::Integer(x)), Yaml::Value(Scalar::Integer(y))) => x == y,
                    (YamlOwned::Value(ScalarOwned::String(x)), Yaml::Value(Scalar::String(y))) => x.as_bytes() == y.as_bytes(),
                    (YamlOwned::Alias(x), Yaml::Alias(y)) => x == y,
                    (YamlOwned::BadValue, Yaml::BadValue) => true,
                    _ => false,
                };
                assert!(ok_o, "YamlOwned::from_bare_yaml changed leaf data");
                core::mem::forget(o);
            }
        };
    }
    from_bare!(c19_from_bare_yaml_int, c19_from_bare_marked_int, c19_from_bare_owned_int, Yaml::Value(Scalar::Integer(kani::any())));
    from_bare!(c19_from_bare_yaml_bool, c19_from_bare_marked_bool, c19_from_bare_owned_bool, Yaml::Value(Scalar::Boolean(kani::any())));
    from_bare!(c19_from_bare_yaml_alias, c19_from_bare_marked_alias, c19_from_bare_owned_alias, Yaml::Alias(kani::any()));
    from_bare!(c19_from_bare_yaml_bad, c19_from_bare_marked_bad, c19_from_bare_owned_bad, Yaml::BadValue);

    // equality and hashing of marked nodes ignore the span
    struct Rec {
        acc: u64,
    }
    impl Hasher for Rec {
        fn finish(&self) -> u64 {
            self.acc
        }
        fn write(&mut self, bytes: &[u8]) {
            let mut i = 0;
            while i < bytes.len() {
                self.acc = self.acc.wrapping_mul(31).wrapping_add(bytes[i] as u64);
                i += 1;
            }
        }
    }
    #[kani::proof]
    #[kani::unwind(12)]
    fn c19_marked_eq_hash_ignore_span() {
        let i: i64 = kani::any();
        let m1 = MarkedYaml { span: Span::new(Marker::new(kani::any(), kani::any(), kani::any()), Marker::new(kani::any(), kani::any(), kani::any())),
                              data: YamlData::Value(Scalar::Integer(i)) };
        let m2 = MarkedYaml { span: Span::new(Marker::new(kani::any(), kani::any(), kani::any()), Marker::new(kani::any(), kani::any(), kani::any())),
                              data: YamlData::Value(Scalar::Integer(i)) };
        assert!(m1 == m2, "marked nodes with equal data compare unequal");
        let mut h1 = Rec { acc: 7 };
        let mut h2 = Rec { acc: 7 };
        m1.hash(&mut h1);
        m2.hash(&mut h2);
        assert!(h1.finish() == h2.finish(), "marked nodes with equal data hash differently");
        let m3 = MarkedYamlOwned::from_bare_yaml(Yaml::Value(Scalar::Integer(i)));
        let m4 = MarkedYamlOwned::from_bare_yaml(Yaml::Value(Scalar::Integer(i))).with_span(
            Span::new(Marker::new(kani::any(), kani::any(), kani::any()), Marker::new(kani::any(), kani::any(), kani::any())));
        assert!(m3 == m4);
    }
}
