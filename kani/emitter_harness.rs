#[cfg(kani)]
mod verif_c09 {
    use super::*;
    use std::borrow::Cow;

    // ---- a fixed-size fmt::Write sink (no heap) --------------------------------------------------------
    const CAP: usize = 20;
    struct Sink {
        buf: [u8; CAP],
        len: usize,
    }
    impl fmt::Write for Sink {
        fn write_str(&mut self, s: &str) -> fmt::Result {
            let b = s.as_bytes();
            let mut i = 0;
            while i < b.len() {
                if self.len >= CAP {
                    return Err(fmt::Error);
                }
                self.buf[self.len] = b[i];
                self.len += 1;
                i += 1;
            }
            Ok(())
        }
    }

    // ---- executable oracle: decode one single-line double-quoted scalar (YAML 1.2 section 5.7 / 7.3.1) ----
    // Returns the decoded bytes, or None if the text is not a well-formed single-line double-quoted scalar
    // made only of printable characters and escapes.
    fn hexv(b: u8) -> Option<u32> {
        match b {
            b'0'..=b'9' => Some((b - b'0') as u32),
            b'a'..=b'f' => Some((b - b'a' + 10) as u32),
            b'A'..=b'F' => Some((b - b'A' + 10) as u32),
            _ => None,
        }
    }
    fn dq_decode(t: &[u8], out: &mut [u8; 4]) -> Option<usize> {
        let n = t.len();
        if n < 2 || t[0] != b'"' || t[n - 1] != b'"' {
            return None;
        }
        let mut i = 1;
        let mut o = 0;
        while i < n - 1 {
            let c = t[i];
            if c == b'"' {
                return None; // unescaped quote inside
            }
            if c < 0x20 || c == 0x7f {
                return None; // raw control character (tabs and breaks must be escaped to survive)
            }
            if c == b'\\' {
                if i + 1 >= n - 1 {
                    return None;
                }
                let e = t[i + 1];
                let (v, adv): (u32, usize) = match e {
                    b'0' => (0, 2),
                    b'a' => (7, 2),
                    b'b' => (8, 2),
                    b't' => (9, 2),
                    b'n' => (10, 2),
                    b'v' => (11, 2),
                    b'f' => (12, 2),
                    b'r' => (13, 2),
                    b'e' => (0x1b, 2),
                    b' ' => (0x20, 2),
                    b'"' => (0x22, 2),
                    b'/' => (0x2f, 2),
                    b'\\' => (0x5c, 2),
                    b'u' => {
                        if i + 5 >= n - 1 + 0 && i + 5 > n - 2 {
                            return None;
                        }
                        let mut v = 0u32;
                        let mut k = 0;
                        while k < 4 {
                            match hexv(t[i + 2 + k]) {
                                Some(d) => v = v * 16 + d,
                                None => return None,
                            }
                            k += 1;
                        }
                        (v, 6)
                    }
                    _ => return None,
                };
                if v >= 0x80 {
                    return None; // the emitter only escapes ASCII
                }
                if o >= 4 {
                    return None;
                }
                out[o] = v as u8;
                o += 1;
                i += adv;
            } else {
                if o >= 4 {
                    return None;
                }
                out[o] = c;
                o += 1;
                i += 1;
            }
        }
        Some(o)
    }

    macro_rules! escape_harness {
        ($name:ident, $len:expr) => {
            // escape_str then decode gives back the original bytes, for every ASCII string of this length
            // (non-ASCII bytes are copied through unchanged by escape_str: its `_ => continue` arm)
            #[kani::proof]
            #[kani::unwind(22)]
            fn $name() {
                let bytes: [u8; $len] = kani::any();
                let mut k = 0;
                while k < $len {
                    kani::assume(bytes[k] < 0x80);
                    k += 1;
                }
                let text = unsafe { core::str::from_utf8_unchecked(&bytes) };
                let mut sink = Sink { buf: [0; CAP], len: 0 };
                let r = escape_str(&mut sink, text);
                assert!(r.is_ok());
                let mut out = [0u8; 4];
                let n = dq_decode(&sink.buf[..sink.len], &mut out);
                assert!(n.is_some(), "escape_str produced something that is not a single-line double-quoted scalar");
                let n = n.unwrap();
                assert!(n == $len, "escape_str changed the length of the content");
                let mut i = 0;
                while i < $len {
                    assert!(out[i] == bytes[i], "escape_str does not decode back to the original");
                    i += 1;
                }
            }
        };
    }
    escape_harness!(c09_escape_len1, 1);
    escape_harness!(c09_escape_len2, 2);
    escape_harness!(c09_escape_len3, 3);

    // ---- executable oracle: does the YAML 1.2.2 core schema (10.3.2) read this plain scalar as something else
    // than a string?  (same transcription as in kani/scalar_harness.rs, which checks the real resolver against it)
    fn is_dig(b: u8) -> bool {
        b >= b'0' && b <= b'9'
    }
    fn core_null(s: &[u8]) -> bool {
        s == b"null" || s == b"Null" || s == b"NULL" || s == b"~"
    }
    fn core_bool(s: &[u8]) -> bool {
        s == b"true" || s == b"True" || s == b"TRUE" || s == b"false" || s == b"False" || s == b"FALSE"
    }
    fn core_int(s: &[u8]) -> bool {
        let n = s.len();
        if n >= 3 && s[0] == b'0' && (s[1] == b'x' || s[1] == b'o') {
            let hex = s[1] == b'x';
            let mut i = 2;
            while i < n {
                let ok = match s[i] {
                    b'0'..=b'7' => true,
                    b'8' | b'9' | b'a'..=b'f' | b'A'..=b'F' => hex,
                    _ => false,
                };
                if !ok {
                    return false;
                }
                i += 1;
            }
            return true;
        }
        let mut i = 0;
        if n > 0 && (s[0] == b'+' || s[0] == b'-') {
            i = 1;
        }
        if i >= n {
            return false;
        }
        while i < n {
            if !is_dig(s[i]) {
                return false;
            }
            i += 1;
        }
        true
    }
    fn dec_float_body(s: &[u8], mut i: usize) -> bool {
        let n = s.len();
        let mut int_digits = 0;
        while i < n && is_dig(s[i]) {
            i += 1;
            int_digits += 1;
        }
        let mut frac_digits = 0;
        let mut dot = false;
        if i < n && s[i] == b'.' {
            dot = true;
            i += 1;
            while i < n && is_dig(s[i]) {
                i += 1;
                frac_digits += 1;
            }
        }
        if int_digits == 0 && (!dot || frac_digits == 0) {
            return false;
        }
        if i < n && (s[i] == b'e' || s[i] == b'E') {
            i += 1;
            if i < n && (s[i] == b'+' || s[i] == b'-') {
                i += 1;
            }
            let mut e = 0;
            while i < n && is_dig(s[i]) {
                i += 1;
                e += 1;
            }
            if e == 0 {
                return false;
            }
        }
        i == n
    }
    fn core_float(s: &[u8]) -> bool {
        if s == b".nan" || s == b".NaN" || s == b".NAN" {
            return true;
        }
        let mut i = 0;
        if !s.is_empty() && (s[0] == b'+' || s[0] == b'-') {
            i = 1;
        }
        let rest = &s[i..];
        rest == b".inf" || rest == b".Inf" || rest == b".INF" || dec_float_body(s, i)
    }
    fn core_typed(s: &[u8]) -> bool {
        core_null(s) || core_bool(s) || core_int(s) || core_float(s)
    }

    // ---- ASSUMED contract of <f64 as FromStr>::from_str (grammar from the std documentation, as for C08) ------
    fn eq_ci(s: &[u8], w: &[u8]) -> bool {
        if s.len() != w.len() {
            return false;
        }
        let mut i = 0;
        while i < s.len() {
            let c = if s[i] >= b'A' && s[i] <= b'Z' { s[i] + 32 } else { s[i] };
            if c != w[i] {
                return false;
            }
            i += 1;
        }
        true
    }
    fn f64_from_str_stub(s: &str) -> Result<f64, core::num::ParseFloatError> {
        let b = s.as_bytes();
        let mut i = 0;
        if !b.is_empty() && (b[0] == b'+' || b[0] == b'-') {
            i = 1;
        }
        let rest = &b[i..];
        if eq_ci(rest, b"inf") || eq_ci(rest, b"infinity") || eq_ci(rest, b"nan") || dec_float_body(b, i) {
            let v: f64 = kani::any();
            Ok(v)
        } else {
            Err(unsafe { core::mem::transmute::<u8, core::num::ParseFloatError>(0u8) })
        }
    }

    // ---- executable oracle: a text that may be written as a plain scalar on one line in block context ------
    // (YAML 1.2 section 7.3.3: ns-plain-first, ns-plain-safe, no ": " / " #", no leading or trailing blank, no break)
    fn is_indicator(b: u8) -> bool {
        matches!(b, b'-' | b'?' | b':' | b',' | b'[' | b']' | b'{' | b'}' | b'#' | b'&' | b'*' | b'!' | b'|' | b'>'
            | b'\'' | b'"' | b'%' | b'@' | b'`')
    }
    fn safe_plain(s: &[u8]) -> bool {
        let n = s.len();
        if n == 0 {
            return false;
        }
        if s[0] == b' ' || s[0] == b'\t' || s[n - 1] == b' ' || s[n - 1] == b'\t' {
            return false;
        }
        if is_indicator(s[0]) {
            // '-', '?' and ':' may start a plain scalar only when followed by a non-space character
            if !(matches!(s[0], b'-' | b'?' | b':') && n > 1 && s[1] != b' ' && s[1] != b'\t') {
                return false;
            }
        }
        let mut i = 0;
        while i < n {
            let c = s[i];
            if c == b'\n' || c == b'\r' || c == 0 {
                return false;
            }
            if c == b':' && (i + 1 == n || s[i + 1] == b' ' || s[i + 1] == b'\t') {
                return false;
            }
            if c == b'#' && i > 0 && (s[i - 1] == b' ' || s[i - 1] == b'\t') {
                return false;
            }
            i += 1;
        }
        // document markers
        if n == 3 && ((s[0] == b'-' && s[1] == b'-' && s[2] == b'-') || (s[0] == b'.' && s[1] == b'.' && s[2] == b'.')) {
            return false;
        }
        true
    }

    // the alphabet of the property: indicators, blanks, breaks, quotes, digits and the characters of type-like words
    fn in_alphabet(b: u8) -> bool {
        matches!(b, b'-' | b'?' | b':' | b',' | b'[' | b'{' | b'#' | b'&' | b'*' | b'!' | b'|' | b'>' | b'\'' | b'"' | b'%'
            | b'@' | b' ' | b'\t' | b'\n' | b'0' | b'1' | b'7' | b'.' | b'+' | b'e' | b'x' | b'o' | b'~' | b'a' | b'n' | b'u' | b'l' | b'y')
    }

    fn check_need_quotes(s: &[u8]) {
        let text = unsafe { core::str::from_utf8_unchecked(s) };
        if !need_quotes(text) {
            // what the emitter writes unquoted must not be read back as a null / bool / int / float ...
            assert!(!core_typed(s), "unquoted text would reload as a typed scalar, not as the same string");
            // ... and must be a legal one-line plain scalar
            assert!(safe_plain(s), "unquoted text is not a safe plain scalar");
        }
    }
    macro_rules! quotes_harness {
        ($name:ident, $len:expr) => {
            #[kani::proof]
            #[kani::unwind(30)]
            #[kani::stub(<f64 as core::str::FromStr>::from_str, f64_from_str_stub)]
            fn $name() {
                let bytes: [u8; $len] = kani::any();
                let mut i = 0;
                while i < $len {
                    kani::assume(in_alphabet(bytes[i]));
                    i += 1;
                }
                check_need_quotes(&bytes);
            }
        };
    }
    quotes_harness!(c09_need_quotes_len1, 1);
    quotes_harness!(c09_need_quotes_len2, 2);
    quotes_harness!(c09_need_quotes_len3, 3);
    quotes_harness!(c09_need_quotes_len4, 4);

    // type-like words (one harness per word: concrete input)
    macro_rules! word_harness {
        ($name:ident, $w:expr) => {
            #[kani::proof]
            #[kani::unwind(30)]
            #[kani::stub(<f64 as core::str::FromStr>::from_str, f64_from_str_stub)]
            fn $name() {
                check_need_quotes($w);
            }
        };
    }
    word_harness!(c09_word_null, b"null");
    word_harness!(c09_word_null_cap, b"Null");
    word_harness!(c09_word_true, b"true");
    word_harness!(c09_word_false_up, b"FALSE");
    word_harness!(c09_word_octal, b"0o17");
    word_harness!(c09_word_hex, b"0x1F");
    word_harness!(c09_word_plus_int, b"+12");
    word_harness!(c09_word_exp, b"1e3");
    word_harness!(c09_word_inf, b".inf");
    word_harness!(c09_word_plus_inf, b"+.inf");
    word_harness!(c09_word_minus_inf, b"-.INF");
    word_harness!(c09_word_nan, b".NaN");
    word_harness!(c09_word_tilde, b"~");

    // (floats: `write!("{v}")` of an f64 is far beyond CBMC even for a concrete value - two harnesses for 1.0 and 0.5
    // were cut off after 600 s - so what the emitter writes for a float is NOT decided here; see DESIGN.md 9.6)
}
