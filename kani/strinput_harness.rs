#[cfg(kani)]
mod verif_c10 {
    use super::*;
    use crate::input::{Input, SkipTabs};

    // The reference: a StrInput seen through the *provided* (default) methods of the trait only.  The nine required
    // methods are delegated to StrInput's own char-iterator implementations (verified in the Verus unit `parser`
    // against the Input contract); everything else falls back to the trait defaults (verified against the same
    // contract).  The byte-indexed overrides of StrInput are compared with these defaults.
    struct D<'a>(StrInput<'a>);
    impl Input for D<'_> {
        fn lookahead(&mut self, count: usize) {
            self.0.lookahead(count)
        }
        fn buflen(&self) -> usize {
            self.0.buflen()
        }
        fn bufmaxlen(&self) -> usize {
            self.0.bufmaxlen()
        }
        fn raw_read_ch(&mut self) -> char {
            self.0.raw_read_ch()
        }
        fn raw_read_non_breakz_ch(&mut self) -> Option<char> {
            self.0.raw_read_non_breakz_ch()
        }
        fn skip(&mut self) {
            self.0.skip()
        }
        fn skip_n(&mut self, count: usize) {
            self.0.skip_n(count)
        }
        fn peek(&self) -> char {
            self.0.peek()
        }
        fn peek_nth(&self, n: usize) -> char {
            self.0.peek_nth(n)
        }
    }

    // every valid UTF-8 string of at most N bytes
    fn any_str<const N: usize>(buf: &[u8; N]) -> &str {
        let n: usize = kani::any();
        kani::assume(n <= N);
        match core::str::from_utf8(&buf[..n]) {
            Ok(s) => s,
            Err(_) => {
                kani::assume(false);
                ""
            }
        }
    }
    fn same_rest(a: &StrInput<'_>, d: &D<'_>) -> bool {
        a.buffer.len() == d.0.buffer.len() && a.buffer.as_ptr() == d.0.buffer.as_ptr()
    }

    macro_rules! pure_diff {
        ($name:ident, $n:expr, $unw:expr) => {
            // the byte-indexed one-character predicates and the document-marker tests == their defaults
            #[kani::proof]
            #[kani::unwind($unw)]
            fn $name() {
                let buf: [u8; $n] = kani::any();
                let s = any_str(&buf);
                let mut a = StrInput::new(s);
                let mut d = D(StrInput::new(s));
                a.lookahead(4);
                d.lookahead(4);
                assert!(a.next_is_blank() == d.next_is_blank());
                assert!(a.next_is_break() == d.next_is_break());
                assert!(a.next_is_breakz() == d.next_is_breakz());
                assert!(a.next_is_z() == d.next_is_z());
                assert!(a.next_is_blank_or_break() == d.next_is_blank_or_break());
                assert!(a.next_is_blank_or_breakz() == d.next_is_blank_or_breakz());
                assert!(a.next_is_flow() == d.next_is_flow());
                assert!(a.next_is_digit() == d.next_is_digit());
                assert!(a.next_is_alpha() == d.next_is_alpha());
                assert!(a.next_is_document_start() == d.next_is_document_start());
                assert!(a.next_is_document_end() == d.next_is_document_end());
                assert!(a.next_is_document_indicator() == d.next_is_document_indicator());
                // next_can_be_plain_scalar is only called on a non-blank, non-end character
                if !a.next_is_blank_or_breakz() {
                    let in_flow: bool = kani::any();
                    assert!(a.next_can_be_plain_scalar(in_flow) == d.next_can_be_plain_scalar(in_flow));
                }
            }
        };
    }
    pure_diff!(c10_str_predicates_len4, 4, 8);
    pure_diff!(c10_str_predicates_len6, 6, 10);

    // strings over the characters the white-space skippers distinguish: blank, tab, '#', LF, CR, a letter and a
    // two-byte character (valid UTF-8 only)
    fn ws_byte(b: u8) -> bool {
        matches!(b, b' ' | b'\t' | b'#' | b'\n' | b'\r' | b'a' | 0xC3 | 0xA9)
    }
    macro_rules! ws_diff {
        ($name:ident, $name2:ident, $n:expr, $unw:expr) => {
            // skip_ws_to_eol: same count, same verdict, same flags, same remaining input
            #[kani::proof]
            #[kani::unwind($unw)]
            fn $name() {
                let buf: [u8; $n] = kani::any();
                let mut i = 0;
                while i < $n {
                    kani::assume(ws_byte(buf[i]));
                    i += 1;
                }
                let s = any_str(&buf);
                let tabs = if kani::any() { SkipTabs::Yes } else { SkipTabs::No };
                let mut a = StrInput::new(s);
                let mut d = D(StrInput::new(s));
                let (na, ra) = a.skip_ws_to_eol(tabs);
                let (nd, rd) = d.skip_ws_to_eol(tabs);
                assert!(na == nd, "skip_ws_to_eol: different counts");
                assert!(ra.is_ok() == rd.is_ok(), "skip_ws_to_eol: different verdicts");
                if let (Ok(x), Ok(y)) = (ra, rd) {
                    assert!(x == y, "skip_ws_to_eol: different tab / white space flags");
                }
                assert!(same_rest(&a, &d), "skip_ws_to_eol: different remaining input");
            }
            // skip_while_blank: same count, same remaining input
            #[kani::proof]
            #[kani::unwind($unw)]
            fn $name2() {
                let buf: [u8; $n] = kani::any();
                let mut i = 0;
                while i < $n {
                    kani::assume(ws_byte(buf[i]));
                    i += 1;
                }
                let s = any_str(&buf);
                let mut a2 = StrInput::new(s);
                let mut d2 = D(StrInput::new(s));
                assert!(a2.skip_while_blank() == d2.skip_while_blank(), "skip_while_blank: different counts");
                assert!(same_rest(&a2, &d2), "skip_while_blank: different remaining input");
            }
        };
    }
    // the comment path of skip_ws_to_eol: a blank, a '#', then two more characters (where the comment ends is what
    // distinguishes the break kinds: LF, CR, CR LF, NUL, end of input)
    #[kani::proof]
    #[kani::unwind(9)]
    fn c10_str_ws_eol_comment() {
        let tail: [u8; 2] = kani::any();
        kani::assume(ws_byte(tail[0]) || tail[0] == 0);
        kani::assume(ws_byte(tail[1]) || tail[1] == 0);
        let lead: u8 = if kani::any() { b' ' } else { b'\t' };
        let buf: [u8; 4] = [lead, b'#', tail[0], tail[1]];
        let n: usize = kani::any();
        kani::assume(n >= 2 && n <= 4);
        let s = match core::str::from_utf8(&buf[..n]) {
            Ok(s) => s,
            Err(_) => return,
        };
        let mut a = StrInput::new(s);
        let mut d = D(StrInput::new(s));
        let (na, ra) = a.skip_ws_to_eol(SkipTabs::Yes);
        let (nd, rd) = d.skip_ws_to_eol(SkipTabs::Yes);
        assert!(na == nd, "skip_ws_to_eol: different counts");
        assert!(ra.is_ok() == rd.is_ok(), "skip_ws_to_eol: different verdicts");
        assert!(same_rest(&a, &d), "skip_ws_to_eol: different remaining input");
    }
    // the same with one character behind the '#'
    #[kani::proof]
    #[kani::unwind(8)]
    fn c10_str_ws_eol_comment1() {
        let t: u8 = kani::any();
        kani::assume(matches!(t, b' ' | b'#' | b'\n' | b'\r' | b'a' | 0));
        let buf: [u8; 3] = [b' ', b'#', t];
        let s = unsafe { core::str::from_utf8_unchecked(&buf) };
        let mut a = StrInput::new(s);
        let mut d = D(StrInput::new(s));
        let (na, ra) = a.skip_ws_to_eol(SkipTabs::Yes);
        let (nd, rd) = d.skip_ws_to_eol(SkipTabs::Yes);
        assert!(na == nd, "skip_ws_to_eol: different counts");
        assert!(ra.is_ok() == rd.is_ok(), "skip_ws_to_eol: different verdicts");
        assert!(same_rest(&a, &d), "skip_ws_to_eol: different remaining input");
    }
    // skip_while_non_breakz (comments, unknown directives): same count - in characters - and same remaining input as
    // the default method, on every valid UTF-8 string of at most 4 bytes over a small alphabet with a two-byte character
    #[kani::proof]
    #[kani::unwind(9)]
    fn c10_str_non_breakz_len4() {
        let buf: [u8; 4] = kani::any();
        let mut i = 0;
        while i < 4 {
            kani::assume(ws_byte(buf[i]) || buf[i] == 0);
            i += 1;
        }
        let s = any_str(&buf);
        let mut a = StrInput::new(s);
        let mut d = D(StrInput::new(s));
        assert!(a.skip_while_non_breakz() == d.skip_while_non_breakz(), "skip_while_non_breakz: different counts");
        assert!(same_rest(&a, &d), "skip_while_non_breakz: different remaining input");
    }
    ws_diff!(c10_str_ws_eol_len2, c10_str_blank_len2, 2, 7);
    ws_diff!(c10_str_ws_eol_len3, c10_str_blank_len3, 3, 8);
    ws_diff!(c10_str_ws_eol_len4, c10_str_blank_len4, 4, 9);
}
