#[cfg(kani)]
mod verif_c08 {
    use super::*;

    // =====================================================================================
    // Executable oracle, transcribed from YAML 1.2.2 section 10.3.2 (core schema tag resolution)
    //   null  : null | Null | NULL | ~
    //   bool  : true | True | TRUE | false | False | FALSE
    //   int   : [-+]? [0-9]+   |   0o [0-7]+   |   0x [0-9a-fA-F]+
    //   float : [-+]? ( \. [0-9]+ | [0-9]+ ( \. [0-9]* )? ) ( [eE] [-+]? [0-9]+ )?
    //           [-+]? ( \.inf | \.Inf | \.INF )      |     \.nan | \.NaN | \.NAN
    // =====================================================================================
    fn is_dig(b: u8) -> bool {
        b >= b'0' && b <= b'9'
    }
    fn core_null(s: &[u8]) -> bool {
        s == b"null" || s == b"Null" || s == b"NULL" || s == b"~"
    }
    fn core_bool(s: &[u8]) -> Option<bool> {
        if s == b"true" || s == b"True" || s == b"TRUE" {
            Some(true)
        } else if s == b"false" || s == b"False" || s == b"FALSE" {
            Some(false)
        } else {
            None
        }
    }
    /// None: not an integer literal.  Some(None): a literal whose value does not fit in i64.
    fn core_int(s: &[u8]) -> Option<Option<i64>> {
        let n = s.len();
        if n >= 3 && s[0] == b'0' && (s[1] == b'x' || s[1] == b'o') {
            let radix: i128 = if s[1] == b'x' { 16 } else { 8 };
            let mut v: i128 = 0;
            let mut over = false;
            let mut i = 2;
            while i < n {
                let d = match s[i] {
                    b'0'..=b'9' => (s[i] - b'0') as i128,
                    b'a'..=b'f' => (s[i] - b'a' + 10) as i128,
                    b'A'..=b'F' => (s[i] - b'A' + 10) as i128,
                    _ => return None,
                };
                if d >= radix {
                    return None;
                }
                v = v * radix + d;
                if v > i64::MAX as i128 {
                    over = true;
                    v = 0;
                }
                i += 1;
            }
            return Some(if over { None } else { Some(v as i64) });
        }
        let mut i = 0;
        let mut neg = false;
        if n > 0 && (s[0] == b'+' || s[0] == b'-') {
            neg = s[0] == b'-';
            i = 1;
        }
        if i >= n {
            return None;
        }
        let mut v: i128 = 0;
        let mut over = false;
        while i < n {
            if !is_dig(s[i]) {
                return None;
            }
            v = v * 10 + (s[i] - b'0') as i128;
            if v > (i64::MAX as i128) + 1 {
                over = true;
                v = 0;
            }
            i += 1;
        }
        let v = if neg { -v } else { v };
        if over || v > i64::MAX as i128 || v < i64::MIN as i128 {
            Some(None)
        } else {
            Some(Some(v as i64))
        }
    }
    #[derive(Clone, Copy, PartialEq)]
    enum FC {
        Finite,
        PosInf,
        NegInf,
        Nan,
    }
    /// `[-+]? ( \. [0-9]+ | [0-9]+ ( \. [0-9]* )? ) ( [eE] [-+]? [0-9]+ )?` starting at `i` (sign already skipped)
    fn dec_float_body(s: &[u8], mut i: usize, dot_needs_digits_without_int: bool) -> bool {
        let n = s.len();
        let mut int_digits = 0;
        while i < n && is_dig(s[i]) {
            i += 1;
            int_digits += 1;
        }
        let mut frac_digits = 0;
        let mut dot = false;
        if i < n && s[i] == b'.' {
            dot = true;
            i += 1;
            while i < n && is_dig(s[i]) {
                i += 1;
                frac_digits += 1;
            }
        }
        if int_digits == 0 && (!dot || frac_digits == 0) {
            return false;
        }
        let _ = dot_needs_digits_without_int;
        if i < n && (s[i] == b'e' || s[i] == b'E') {
            i += 1;
            if i < n && (s[i] == b'+' || s[i] == b'-') {
                i += 1;
            }
            let mut e = 0;
            while i < n && is_dig(s[i]) {
                i += 1;
                e += 1;
            }
            if e == 0 {
                return false;
            }
        }
        i == n
    }
    fn core_float(s: &[u8]) -> Option<FC> {
        if s == b".nan" || s == b".NaN" || s == b".NAN" {
            return Some(FC::Nan);
        }
        let mut i = 0;
        let mut neg = false;
        if !s.is_empty() && (s[0] == b'+' || s[0] == b'-') {
            neg = s[0] == b'-';
            i = 1;
        }
        let rest = &s[i..];
        if rest == b".inf" || rest == b".Inf" || rest == b".INF" {
            return Some(if neg { FC::NegInf } else { FC::PosInf });
        }
        if dec_float_body(s, i, true) {
            Some(FC::Finite)
        } else {
            None
        }
    }
    fn class_of(f: f64) -> FC {
        if f.is_nan() {
            FC::Nan
        } else if f == f64::INFINITY {
            FC::PosInf
        } else if f == f64::NEG_INFINITY {
            FC::NegInf
        } else {
            FC::Finite
        }
    }

    // =====================================================================================
    // ASSUMED contract of <f64 as FromStr>::from_str (std documentation, "Grammar"):
    //   Number ::= [sign] ( 'inf' | 'infinity' | 'nan' | Digit* '.' Digit* [Exp] ... )   case-insensitive words;
    // it returns Ok exactly for that grammar, with a value of the right class (sign of inf; NaN; else any
    // finite-or-overflowed value).  The real dec2flt does not finish under CBMC, so the *value* of an accepted
    // decimal float is trusted to std.
    // =====================================================================================
    fn eq_ci(s: &[u8], w: &[u8]) -> bool {
        if s.len() != w.len() {
            return false;
        }
        let mut i = 0;
        while i < s.len() {
            let c = if s[i] >= b'A' && s[i] <= b'Z' { s[i] + 32 } else { s[i] };
            if c != w[i] {
                return false;
            }
            i += 1;
        }
        true
    }
    fn rust_float(s: &[u8]) -> Option<FC> {
        let mut i = 0;
        let mut neg = false;
        if !s.is_empty() && (s[0] == b'+' || s[0] == b'-') {
            neg = s[0] == b'-';
            i = 1;
        }
        let rest = &s[i..];
        if eq_ci(rest, b"inf") || eq_ci(rest, b"infinity") {
            return Some(if neg { FC::NegInf } else { FC::PosInf });
        }
        if eq_ci(rest, b"nan") {
            return Some(FC::Nan);
        }
        if dec_float_body(s, i, false) {
            Some(FC::Finite)
        } else {
            None
        }
    }
    fn f64_from_str_stub(s: &str) -> Result<f64, core::num::ParseFloatError> {
        match rust_float(s.as_bytes()) {
            Some(FC::PosInf) => Ok(f64::INFINITY),
            Some(FC::NegInf) => Ok(f64::NEG_INFINITY),
            Some(FC::Nan) => Ok(f64::NAN),
            Some(FC::Finite) => {
                let v: f64 = kani::any();
                kani::assume(!v.is_nan());
                Ok(v)
            }
            // ParseFloatError has private fields; its content is never inspected by the code under test
            None => Err(unsafe { core::mem::transmute::<u8, core::num::ParseFloatError>(0u8) }),
        }
    }

    // the alphabet of the property: characters that occur in core-schema literals
    fn in_alphabet(b: u8) -> bool {
        matches!(b,
            b'0'..=b'9' | b'+' | b'-' | b'.' | b'e' | b'E' | b'x' | b'o' | b'a'..=b'f' | b'A'..=b'F' | b'_' | b'~'
            | b'n' | b'u' | b'l' | b't' | b'r' | b's' | b'i' | b'N' | b'U' | b'L' | b'T' | b'R' | b'S' | b'I')
    }

    fn check_untagged(s: &[u8]) {
        let text = core::str::from_utf8(s).unwrap();
        let r = Scalar::parse_from_cow(Cow::Borrowed(text));
        match r {
            Scalar::Null => assert!(core_null(s), "typed null but not a core-schema null literal"),
            Scalar::Boolean(b) => assert!(core_bool(s) == Some(b), "typed bool but not that core-schema literal"),
            Scalar::Integer(i) => assert!(core_int(s) == Some(Some(i)), "typed integer but not that core-schema literal"),
            Scalar::FloatingPoint(f) => {
                let c = core_float(s);
                assert!(c.is_some(), "typed float but not a core-schema float literal");
                let c = c.unwrap();
                assert!(c == FC::Finite || c == class_of(f.0), "wrong special float value");
            }
            Scalar::String(ref t) => assert!(t.as_bytes() == s, "string content changed"),
        }
        // completeness: JSON literals, 64-bit integers, floats
        if s == b"null" {
            assert!(matches!(r, Scalar::Null));
        }
        if s == b"true" {
            assert!(matches!(r, Scalar::Boolean(true)));
        }
        if s == b"false" {
            assert!(matches!(r, Scalar::Boolean(false)));
        }
        if let Some(Some(v)) = core_int(s) {
            assert!(matches!(r, Scalar::Integer(i) if i == v), "core-schema integer not recognised");
        } else if core_float(s).is_some() {
            assert!(matches!(r, Scalar::FloatingPoint(_)), "core-schema float not recognised");
        }
    }

    macro_rules! untagged_harness {
        ($name:ident, $len:expr) => {
            #[kani::proof]
            #[kani::unwind(12)]
            #[kani::stub(<f64 as core::str::FromStr>::from_str, f64_from_str_stub)]
            fn $name() {
                let bytes: [u8; $len] = kani::any();
                let mut i = 0;
                while i < $len {
                    kani::assume(in_alphabet(bytes[i]));
                    i += 1;
                }
                kani::cover!(true);
                check_untagged(&bytes);
            }
        };
    }
    untagged_harness!(c08_untagged_len1, 1);
    untagged_harness!(c08_untagged_len2, 2);
    untagged_harness!(c08_untagged_len3, 3);
    untagged_harness!(c08_untagged_len4, 4);
    untagged_harness!(c08_untagged_len5, 5);

    // ---- tagged plain scalars: exactly the tag's type, agreeing with the untagged reading, or None ----
    fn mk_tag(which: u8) -> Option<Tag> {
        let core = "tag:yaml.org,2002:";
        match which {
            0 => None,
            1 => Some(Tag { handle: core.into(), suffix: "int".into() }),
            2 => Some(Tag { handle: core.into(), suffix: "float".into() }),
            3 => Some(Tag { handle: core.into(), suffix: "bool".into() }),
            4 => Some(Tag { handle: core.into(), suffix: "null".into() }),
            5 => Some(Tag { handle: core.into(), suffix: "str".into() }),
            _ => Some(Tag { handle: "!".into(), suffix: "foo".into() }),
        }
    }
    fn check_tagged(s: &[u8], which: u8) {
        let text = core::str::from_utf8(s).unwrap();
        let tag = mk_tag(which);
        let r = Scalar::parse_from_cow_and_metadata(Cow::Borrowed(text), ScalarStyle::Plain, tag.as_ref());
        match which {
            0 => assert!(r.is_some()),
            1 => {
                match r {
                    None => {}
                    Some(Scalar::Integer(i)) => assert!(core_int(s) == Some(Some(i)), "!!int value disagrees with the text"),
                    Some(_) => panic!("!!int produced another type"),
                }
                // decimal numbers are always accepted under their own tag
                if let Some(Some(v)) = core_int(s) {
                    if !(s.len() >= 2 && s[0] == b'0' && (s[1] == b'x' || s[1] == b'o')) {
                        assert!(matches!(r, Some(Scalar::Integer(i)) if i == v), "decimal integer rejected under !!int");
                    }
                }
            }
            2 => {
                match r {
                    None => {}
                    Some(Scalar::FloatingPoint(f)) => {
                        let c = core_float(s);
                        assert!(c.is_some(), "!!float accepted a text that is not a core-schema number");
                        let c = c.unwrap();
                        assert!(c == FC::Finite || c == class_of(f.0));
                    }
                    Some(_) => panic!("!!float produced another type"),
                }
                if core_float(s).is_some() {
                    assert!(matches!(r, Some(Scalar::FloatingPoint(_))), "decimal number rejected under !!float");
                }
            }
            3 => {
                match r {
                    None => {}
                    Some(Scalar::Boolean(b)) => assert!(core_bool(s) == Some(b)),
                    Some(_) => panic!("!!bool produced another type"),
                }
                if s == b"true" || s == b"false" {
                    assert!(r.is_some());
                }
            }
            4 => {
                match r {
                    None => {}
                    Some(Scalar::Null) => assert!(core_null(s)),
                    Some(_) => panic!("!!null produced another type"),
                }
                if s == b"null" || s == b"~" {
                    assert!(matches!(r, Some(Scalar::Null)));
                }
            }
            _ => assert!(matches!(r, Some(Scalar::String(ref t)) if t.as_bytes() == s), "!!str / foreign tag must leave the string"),
        }
    }
    macro_rules! tagged_harness {
        ($name:ident, $len:expr) => {
            #[kani::proof]
            #[kani::unwind(20)]
            #[kani::stub(<f64 as core::str::FromStr>::from_str, f64_from_str_stub)]
            fn $name() {
                let bytes: [u8; $len] = kani::any();
                let mut i = 0;
                while i < $len {
                    kani::assume(in_alphabet(bytes[i]));
                    i += 1;
                }
                let which: u8 = kani::any();
                kani::assume(which >= 1 && which <= 6);
                kani::cover!(true);
                check_tagged(&bytes, which);
            }
        };
    }
    tagged_harness!(c08_tagged_len1, 1);
    tagged_harness!(c08_tagged_len2, 2);
    tagged_harness!(c08_tagged_len3, 3);
    tagged_harness!(c08_tagged_len4, 4);

    // ---- quoted and block scalars are strings with identical content; owned == borrowed -----------------
    #[kani::proof]
    #[kani::unwind(20)]
    #[kani::stub(<f64 as core::str::FromStr>::from_str, f64_from_str_stub)]
    fn c08_nonplain_and_owned() {
        let bytes: [u8; 3] = kani::any();
        let mut i = 0;
        while i < 3 {
            kani::assume(in_alphabet(bytes[i]));
            i += 1;
        }
        let text = core::str::from_utf8(&bytes).unwrap();
        let st: u8 = kani::any();
        let style = match st {
            0 => ScalarStyle::SingleQuoted,
            1 => ScalarStyle::DoubleQuoted,
            2 => ScalarStyle::Literal,
            _ => ScalarStyle::Folded,
        };
        let which: u8 = kani::any();
        kani::assume(which <= 6);
        let tag = mk_tag(which);
        let r = Scalar::parse_from_cow_and_metadata(Cow::Borrowed(text), style, tag.as_ref());
        assert!(matches!(r, Some(Scalar::String(ref t)) if t.as_bytes() == &bytes[..]), "quoted/block scalar must stay a string");
        // owned and borrowed resolve identically (plain, untagged)
        let b = Scalar::parse_from_cow(Cow::Borrowed(text));
        let o = ScalarOwned::parse_from_cow(Cow::Borrowed(text));
        let same = match (&b, &o) {
            (Scalar::Null, ScalarOwned::Null) => true,
            (Scalar::Boolean(x), ScalarOwned::Boolean(y)) => x == y,
            (Scalar::Integer(x), ScalarOwned::Integer(y)) => x == y,
            (Scalar::FloatingPoint(_), ScalarOwned::FloatingPoint(_)) => true,
            (Scalar::String(x), ScalarOwned::String(y)) => x.as_bytes() == y.as_bytes(),
            _ => false,
        };
        assert!(same, "owned and borrowed scalars resolve differently");
    }
}
