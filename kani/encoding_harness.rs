#[cfg(kani)]
mod verif_c18 {
    use super::*;
    use encoding_rs::DecoderResult;

    // ---- ASSUMED contract of encoding_rs::Decoder::decode_to_string_without_replacement, as a stub ----
    // (documentation of encoding_rs 0.8.41: capacity is the output limit, no reallocation; InputEmpty =
    //  everything consumed; Malformed(l, a): l in 1..=4, a in 0..=3, those bytes are consumed; "Infinite
    //  loops": with room for one character of output (4 bytes) an OutputFull call makes progress;
    //  output <= 3 * input + 4 bytes).  The String itself is modelled by two counters.
    static mut CONSUMED: usize = 0;
    static mut EMITTED: usize = 0;
    static mut CAP: usize = 0;
    static mut LEN: usize = 0;

    fn decoder_stub(_d: &mut Decoder, src: &[u8], _dst: &mut String, _last: bool) -> (DecoderResult, usize) {
        unsafe {
            let read: usize = kani::any();
            kani::assume(read <= src.len());
            let spare = CAP - LEN;
            let written: usize = kani::any();
            kani::assume(written <= spare);
            kani::assume(EMITTED + written <= 3 * (CONSUMED + read) + 4);
            let which: u8 = kani::any();
            let res = match which {
                0 => {
                    kani::assume(read == src.len());
                    DecoderResult::InputEmpty
                }
                1 => {
                    kani::assume(spare < 4 || read >= 1 || written >= 1);
                    DecoderResult::OutputFull
                }
                _ => {
                    let l: u8 = kani::any();
                    let a: u8 = kani::any();
                    kani::assume(1 <= l && l <= 4 && a <= 3 && read >= 1);
                    kani::assume((l as usize + a as usize) <= CONSUMED + read);
                    DecoderResult::Malformed(l, a)
                }
            };
            CONSUMED += read;
            EMITTED += written;
            LEN += written;
            (res, read)
        }
    }
    fn reserve_stub(_s: &mut String, additional: usize) {
        unsafe {
            if CAP < LEN + additional {
                CAP = LEN + additional;
            }
        }
    }
    fn push_stub(_s: &mut String, _c: char) {
        unsafe {
            LEN += 3;
            if CAP < LEN {
                CAP = LEN;
            }
        }
    }
    fn format_stub(_a: std::fmt::Arguments<'_>) -> String {
        String::new()
    }
    fn cb_continue(_l: u8, _a: u8, _i: &[u8], _o: &mut String) -> ControlFlow<Cow<'static, str>> {
        ControlFlow::Continue(())
    }
    fn cb_break(_l: u8, _a: u8, _i: &[u8], _o: &mut String) -> ControlFlow<Cow<'static, str>> {
        ControlFlow::Break(Cow::Borrowed(""))
    }

    // BOUNDED: inputs of at most 1 byte, at most 16 loop iterations (the unwinding assertion is the
    // termination claim), all four trap modes, every decoder behaviour the assumed contract allows.
    #[kani::proof]
    #[kani::unwind(17)]
    #[kani::stub(encoding_rs::Decoder::decode_to_string_without_replacement, decoder_stub)]
    #[kani::stub(std::string::String::reserve, reserve_stub)]
    #[kani::stub(std::string::String::push, push_stub)]
    #[kani::stub(alloc::fmt::format, format_stub)]
    fn c18_decode_loop_terminates() {
        let n: usize = kani::any();
        kani::assume(n <= 1);
        let input = [0u8; 1];
        let mut out = String::new();
        let mut dec = encoding_rs::UTF_16LE.new_decoder();
        let t: u8 = kani::any();
        let trap = match t {
            0 => YAMLDecodingTrap::Ignore,
            1 => YAMLDecodingTrap::Strict,
            2 => YAMLDecodingTrap::Replace,
            3 => YAMLDecodingTrap::Call(cb_continue),
            _ => YAMLDecodingTrap::Call(cb_break),
        };
        kani::cover!(true);
        let r = decode_loop(&input[..n], &mut out, &mut dec, trap);
        // the String is only modelled by counters (reserve/push are stubbed): do not run real destructors
        std::mem::forget(r);
        std::mem::forget(out);
    }

    // COMPLETE (loop-free): BOM-less detection follows the rule of the statement for every pair of
    // leading bytes and every length class.
    #[kani::proof]
    fn c18_detect_utf16() {
        let b: [u8; 3] = kani::any();
        let n: usize = kani::any();
        kani::assume(n <= 3);
        let e = detect_utf16_endianness(&b[..n]);
        let want = if n >= 2 && b[0] != b[1] && b[0] == 0 {
            encoding_rs::UTF_16BE
        } else if n >= 2 && b[0] != b[1] && b[1] == 0 {
            encoding_rs::UTF_16LE
        } else {
            encoding_rs::UTF_8
        };
        assert!(core::ptr::eq(e, want));
    }
}
