#!/usr/bin/env python3
"""Developer tool, run on the UNCHANGED tree only: records, for every function under contract, the header text of
its loops and the uncontracted functions it calls (contracts/loop_fingerprints.json, committed).  The checks read
the file and never write it:
  * when a function has FEWER loops than recorded, the remaining loops are matched to their recorded ordinals by
    header text, and the contract of a loop that no longer exists is dropped together with its `in loop k` hints;
  * when a failing function calls an uncontracted function that is not recorded here, the failure means
    "needs a contract" and the verdict is UNDECIDED, not VIOLATION."""
import json, os, sys
sys.path.insert(0, os.path.dirname(os.path.abspath(__file__)))
import extract, units
out = {'loops': {}, 'calls': {}}
fpp = os.path.join(os.path.dirname(os.path.dirname(os.path.abspath(__file__))), 'contracts', 'loop_fingerprints.json')
if os.path.exists(fpp):
    os.rename(fpp, fpp + '.old')     # generate without consulting the old record
try:
    for tier in ('quick', 'thorough'):
        for unit in (units.parser_unit(tier, '/var/tmp/vp'), units.loader_unit()):
            g = extract.generate('/repo', unit['mods'], unit['sidecar'], unit['prelude'], unit['features'])
            for k, v in g.loop_heads.items():
                if v:
                    out['loops'][k] = v
            for k, v in g.uncontracted_calls.items():
                out['calls'][k] = sorted(set(out['calls'].get(k, [])) | set(v))
finally:
    if os.path.exists(fpp + '.old'):
        os.remove(fpp + '.old')
json.dump(out, open(fpp, 'w'), indent=1, sort_keys=True)
print('recorded', len(out['loops']), 'functions with loops,', len(out['calls']), 'with uncontracted callees')
