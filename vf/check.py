#!/usr/bin/env python3
"""bin/check <Cxx> [--tier quick|thorough] [--replay PATH]

Builds the Verus units a property needs from /repo's current working tree, checks fidelity, runs
the verifier, routes every failed obligation to properties and writes evidence/<id>.json.
Exit 0: every obligation routed to the property is discharged (KNOWN-FINDING lines for listed
findings).  Exit 1 + `VIOLATION property=<id> replay=<path>`: an obligation fails.  Exit 2: undecided
(tool problem, spec no longer applies, lost anchor, vacuity) - never printed as a violation.
"""
import argparse
import hashlib
import json
import os
import re
import shutil
import sys
import time
import traceback

HERE = os.path.dirname(os.path.abspath(__file__))
ROOT = os.path.dirname(HERE)
sys.path.insert(0, HERE)
import extract   # noqa: E402
import fidelity  # noqa: E402
import runverus  # noqa: E402
import rsfn      # noqa: E402
import units     # noqa: E402
import props as propdefs  # noqa: E402

try:
    FINGERPRINTS = json.load(open(os.path.join(os.path.dirname(os.path.dirname(os.path.abspath(__file__))),
                                               'contracts', 'loop_fingerprints.json')))
except Exception:
    FINGERPRINTS = {}

REPO = os.environ.get('VERIF_REPO', '/repo')
CACHE = os.environ.get('VERIF_CACHE') or os.path.join(ROOT, '.cache')
SAFETY_KINDS = {'overflow', 'unreachable', 'index', 'assert-src', 'std-requires'}


class Undecided(Exception):
    pass


def label_of(ctx, name):
    return name if not ctx else '%s::%s' % (ctx.split()[-1], name)


def fn_index(repo, mods):
    """path -> list of (first_line, last_line, label)."""
    idx = {}
    for path in fidelity.flat_files(mods):
        src = open(os.path.join(repo, path)).read()
        toks = rsfn.lex(src)
        fns, _ = rsfn.find_items(toks)
        lst = []
        for f in fns:
            if f.in_test:
                continue
            l0 = toks[f.attr_start].line
            l1 = toks[f.body_close].line if f.has_body else toks[f.sig_end].line
            lst.append((l0, l1, label_of(f.ctx, f.name), src.split('\n')))
        idx[path] = lst
    return idx


def snippet(idx, path, line):
    for (l0, l1, lab, lines) in idx.get(path, []):
        if l0 <= line <= l1:
            s = re.sub(r'\s+', ' ', lines[line - 1]).strip()
            return s[:70]
    return ''


def containing_fn(idx, path, line):
    for (l0, l1, lab, _) in idx.get(path, []):
        if l0 <= line <= l1:
            return lab
    return None


def build_unit(unit, scratch, canary=False):
    t0 = time.time()
    try:
        g = extract.generate(REPO, unit['mods'], unit['sidecar'], unit['prelude'], unit['features'],
                             canary=canary)
    except extract.SpecError as e:
        raise Undecided('spec-does-not-apply: %s' % e)
    except rsfn.LexError as e:
        raise Undecided('cannot lex source: %s' % e)
    problems = fidelity.check(g.text, REPO, unit['mods'])
    if problems:
        raise Undecided('fidelity mismatch (framework error): %s' % problems[0])
    path = os.path.join(scratch, 'unit_%s%s.rs' % (unit['name'], '_canary' if canary else ''))
    open(path, 'w').write(g.text)
    return g, path, time.time() - t0


def analyse(unit, g, vr):
    """Turn verus diagnostics into failure records."""
    idx = fn_index(REPO, unit['mods'])
    contracts = g.contracts
    clause_tab = {}
    for lab, c in contracts.items():
        clause_tab[lab] = {'sig': runverus.split_clauses(c['sig']),
                           'loops': {k: runverus.split_clauses(v) for k, v in c['loops'].items()}}
    failures = []
    undecided = []
    lm = g.linemap

    def origin(line):
        if 1 <= line <= len(lm):
            return lm[line - 1]
        return {'k': 'blank'}

    def pick(cands, sub, col):
        """several clauses may share a line: choose by column"""
        on_line = [cl for cl in cands if cl['first_line'] <= sub <= cl['last_line']]
        if not on_line:
            return None
        if len(on_line) == 1 or col is None:
            return on_line[0]
        best = None
        for cl in on_line:
            if cl['first_line'] < sub or cl.get('first_col', 0) <= col:
                best = cl
        return best or on_line[0]

    def locate_clause(o, col=None):
        """o: linemap entry of kind ins -> (label, clause dict or None, where)."""
        cid = o.get('id', '')
        lab = o.get('contract')
        sub = o.get('subline', 0) - 1   # inserted text starts with '\n'
        if cid.startswith('sig:') and lab in clause_tab:
            cl = pick(clause_tab[lab]['sig'], sub, col)
            return lab, cl, 'sig'
        m = re.match(r'loop(\d+):', cid)
        if m and lab in clause_tab:
            k = int(m.group(1))
            cl = pick(clause_tab[lab]['loops'].get(k, []), sub, col)
            if cl:
                return lab, dict(cl, loop=k), 'loop%d' % k
            return lab, None, 'loop%d' % k
        return lab, None, cid

    for d in vr['diags']:
        cls, kind = runverus.classify(d)
        if cls in ('warning', 'note'):
            # "not all errors may have been reported": the function fails and Verus stopped looking for further failing
            # clauses - its other clauses are unverified in this run
            if 'not all errors may have been reported' in (d.get('message') or ''):
                for sp in d.get('spans', []):
                    so = origin(sp['line_start'])
                    fl = containing_fn(idx, so['file'], so['line']) if so.get('k') == 'src' else so.get('contract')
                    if fl:
                        undecided.append({'msg': 'partial: %s fails and not all of its failed obligations were reported' % fl,
                                          'fn': fl, 'partial': True})
                        break
            continue
        spans = d.get('spans', [])
        prim = [s for s in spans if s.get('is_primary')]
        sec = [s for s in spans if not s.get('is_primary')]
        rendered = d.get('rendered', d.get('message', ''))
        if cls == 'rlimit':
            # attribute the time-out to the function it happened in, so that only its properties are undecided
            fnlab = None
            for sp in prim + sec:
                so = origin(sp['line_start'])
                if so.get('k') == 'src':
                    fnlab = containing_fn(idx, so['file'], so['line'])
                elif so.get('k') == 'ins':
                    fnlab = so.get('contract')
                if fnlab:
                    break
            undecided.append({'msg': 'rlimit/timeout in %s: %s' % (fnlab, d.get('message', '')), 'fn': fnlab})
            continue
        if cls == 'other-error':
            undecided.append('verus/rustc error (not a verification failure): ' + (rendered or '')[:600])
            continue
        rec = {'kind': kind, 'message': d.get('message'), 'rendered': rendered, 'fn': None, 'clause': None,
               'props_override': None, 'where': None, 'id': None, 'repo_loc': None}
        p0 = prim[0] if prim else (spans[0] if spans else None)
        o = origin(p0['line_start']) if p0 else {'k': 'blank'}
        # the failed clause may be the primary span (postcondition) or a secondary one (loop invariant at a break)
        clause_span = None
        if kind in ('ensures', 'invariant', 'decreases'):
            for sp in ([p0] if p0 else []) + sec:
                so = origin(sp['line_start'])
                if so.get('k') == 'ins' and re.match(r'(sig|loop\d+):', str(so.get('id', ''))):
                    clause_span = (sp, so)
                    break
        if clause_span is not None:
            p0c, o = clause_span
            lab, cl, where = locate_clause(o, (p0c.get('column_start') or 1) - 1)
            rec['fn'] = lab
            if cl:
                rec['clause'] = cl['text']
                rec['props_override'] = cl.get('props')
                name = cl['tag'] or '%s%d' % (cl['section'], cl['idx'])
                rec['id'] = '%s.%s%s' % (lab, ('loop%d.' % cl['loop']) if 'loop' in cl else '', name)
            else:
                rec['id'] = '%s.%s' % (lab, kind)
            # where in the body did it fail
            for s in ([p0] if p0 else []) + sec:
                so = origin(s['line_start'])
                if so.get('k') == 'src':
                    rec['repo_loc'] = '%s:%d' % (so['file'], so['line'])
                    break
        else:
            # primary span is in the body (source or inserted proof text)
            if o.get('k') == 'src':
                lab = containing_fn(idx, o['file'], o['line'])
                rec['fn'] = lab
                rec['repo_loc'] = '%s:%d' % (o['file'], o['line'])
                sn = snippet(idx, o['file'], o['line'])
            elif o.get('k') == 'ins':
                lab = o.get('contract')
                rec['fn'] = lab
                sn = 'proof-hint:' + o.get('id', '')
                if kind == 'requires-at-call':
                    # the precondition of a lemma called inside a proof block: part of the proof of the function's
                    # functional clauses, not a safety obligation of the code
                    kind = 'assert'
                    rec['kind'] = 'assert'
                if kind == 'assert':
                    kind = 'assert-hint'
                    # an assertion of a proof block may carry a property tag like a clause does: `// [C04] #name`
                    txt = ' '.join(t.get('text', '') for t in (p0.get('text') or []))
                    mt = re.search(r'//\s*\[([C0-9 ]+)\]\s*#([\w-]+)', txt)
                    if mt:
                        rec['props_override'] = mt.group(1).split()
                        rec['tagged_assert'] = mt.group(2)
            else:
                lab = None
                sn = ''
            if kind == 'requires-at-call':
                callee = None
                for s in sec:
                    so = origin(s['line_start'])
                    if so.get('k') == 'ins' and so.get('id', '').startswith('sig:'):
                        clab, cl, _ = locate_clause(so, (s.get('column_start') or 1) - 1)
                        callee = (clab, cl)
                        break
                    if so.get('k') == 'ins' and so.get('id', '').startswith('prelude'):
                        callee = ('std', None)
                        break
                if callee is None:
                    # precondition of a vstd/std function (span outside the unit)
                    rec['kind'] = 'std-requires'
                    rec['id'] = '%s.safety.call@%s' % (lab, sn)
                elif callee[0] == 'std':
                    rec['kind'] = 'std-requires'
                    rec['id'] = '%s.safety.call@%s' % (lab, sn)
                else:
                    clab, cl = callee
                    nm = (cl['tag'] or 'requires%d' % cl['idx']) if cl else 'requires'
                    rec['id'] = '%s.call.%s.%s@%s' % (lab, clab, nm, sn)
                    rec['clause'] = cl['text'] if cl else None
                    rec['props_override'] = cl.get('props') if cl else None
            elif kind == 'assert' and o.get('k') == 'src':
                rec['kind'] = 'assert-src'
                rec['id'] = '%s.safety.assert@%s' % (lab, sn)
            elif kind in ('overflow', 'unreachable', 'index'):
                rec['id'] = '%s.safety.%s@%s' % (lab, kind, sn)
            else:
                rec['id'] = '%s.%s@%s' % (lab, kind, sn)
            if rec.get('tagged_assert'):
                rec['id'] = '%s.%s' % (lab, rec['tagged_assert'])
        if rec['fn'] is None:
            undecided.append('cannot attribute diagnostic to a function: ' + (rendered or '')[:400])
            continue
        failures.append(rec)
    return failures, undecided, clause_tab


def default_props(fprops, section):
    """Routing of an untagged clause: termination clauses and the implicit safety obligations belong to C01;
    functional clauses (ensures / invariants) belong to the other properties of the header (to C01 only when it
    is the only one)."""
    others = [p for p in fprops if p != 'C01']
    if section in ('decreases', 'safety'):
        return ['C01'] if 'C01' in fprops else fprops
    return others if others else fprops


def route(rec, contracts):
    c = contracts.get(rec['fn'])
    fprops = c['props'] if c else []
    if rec.get('props_override'):
        return rec['props_override']
    if rec['kind'] in SAFETY_KINDS or rec['kind'] == 'decreases':
        return default_props(fprops, 'safety')
    if rec['kind'] == 'requires-at-call':
        # an unproved precondition of a contracted callee: a lookahead / state discipline failure -> C01 and the
        # functional properties alike
        return fprops
    return default_props(fprops, 'ensures')


def count_obligations(pid, contracts, clause_tab):
    n = 0
    per_fn = {}
    assumed = []
    for lab, c in contracts.items():
        if pid not in c['props']:
            continue
        tabs = clause_tab[lab]
        k = 0
        if c['mode'] != 'verify':
            assumed.append('%s (%s)' % (lab, c['mode']))
            continue
        def mine(cl):
            return pid in (cl['props'] or default_props(c['props'], cl['section']))
        for cl in tabs['sig']:
            if cl['section'] in ('ensures', 'decreases') and mine(cl):
                k += 1
        for lk, cls in tabs['loops'].items():
            for cl in cls:
                if cl['section'] in ('invariant', 'invariant_except_break', 'ensures') and mine(cl):
                    k += 2    # established on entry + preserved by the body
                elif cl['section'] == 'decreases' and mine(cl):
                    k += 1
        # assertions of proof blocks that carry a property tag (`assert(...); // [C04] #name`)
        for ptxt in c.get('proofs', []):
            for mt in re.finditer(r'//\s*\[([C0-9 ]+)\]\s*#[\w-]+', ptxt):
                if pid in mt.group(1).split():
                    k += 1
        # one bundled obligation for everything Verus generates by itself in the body: callee
        # preconditions, unwrap/expect, unreachable!, assert!, overflow, indexing
        if pid == 'C01' or 'C01' not in c['props']:
            k += 1
        per_fn[lab] = k
        n += k
    return n, per_fn, assumed


def load_known():
    out = {'finding': [], 'fixed': []}
    p = os.path.join(ROOT, 'known_findings.txt')
    if not os.path.exists(p):
        return out
    for ln in open(p):
        ln = ln.strip()
        if not ln or ln.startswith('#'):
            continue
        m = re.match(r'^(finding|fixed):\s*property=(C\d+)\s+(.*)$', ln)
        if not m:
            continue
        kind, pid, rest = m.groups()
        ent = {'property': pid, 'text': rest}
        mo = re.search(r'obligation=(.+?)\s+::', rest)
        if mo:
            ent['obligation'] = mo.group(1)
        out[kind].append(ent)
    return out


def trusted_scan(text):
    """Mechanical scan of the generated unit for assumption-bearing constructs."""
    t = fidelity.W_RE.sub(' ', text)
    return {
        'assume(': len(re.findall(r'\bassume\s*\(', t)),
        'admit(': len(re.findall(r'\badmit\s*\(', t)),
        'external_body': len(re.findall(r'verifier::external_body', t)),
        'verifier::external': len(re.findall(r'verifier::external\]', t)),
        'assume_specification': len(re.findall(r'\bassume_specification\b', t)),
        'axiom fn': len(re.findall(r'\baxiom fn\b', t)),
        'uninterp spec fn': len(re.findall(r'\buninterp spec fn\b', t)),
        'exec_allows_no_decreases_clause': len(re.findall(r'exec_allows_no_decreases_clause', t)),
    }


UNIT_UNDECIDED = []


def run_units(pid, tier, scratch, want_canary):
    """-> dict unit name -> result."""
    results = {}
    for uname in propdefs.PROPS[pid].get('units', []):
        ufn = getattr(units, uname + '_unit')
        unit = ufn(tier, scratch) if uname == 'parser' else ufn()
        try:
            g, path, gen_s = build_unit(unit, scratch)
        except Undecided as e:
            # a property that is also decided by another engine (Kani) must still run that engine: what it
            # finds on the real code stands even when the contracts of this unit no longer apply to the text
            if propdefs.PROPS[pid].get('extra'):
                UNIT_UNDECIDED.append('unit %s: %s' % (uname, e))
                continue
            raise
        vr = runverus.run(path, cache_dir=CACHE, cache_key_extra=runverus.verus_version())
        if vr['timed_out']:
            raise Undecided('verus timed out on unit %s' % uname)
        if vr['summary'] is None and not vr['diags']:
            raise Undecided('verus produced no output on unit %s: %s' % (uname, vr.get('stderr_tail', '')[-500:]))
        failures, undecided, clause_tab = analyse(unit, g, vr)
        res = {'unit': unit, 'g': g, 'vr': vr, 'failures': failures, 'undecided': undecided,
               'clause_tab': clause_tab, 'gen_s': gen_s, 'path': path, 'canary': None}
        if want_canary:
            gc, cpath, _ = build_unit(unit, scratch, canary=True)
            cvr = runverus.run(cpath, cache_dir=CACHE, cache_key_extra=runverus.verus_version())
            cfail, cund, _ = analyse(unit, gc, cvr)
            fired = set()
            for d in cvr['diags']:
                for sp in d.get('spans', []):
                    ln = sp.get('line_start', 0)
                    if 1 <= ln <= len(gc.linemap):
                        o = gc.linemap[ln - 1]
                        for oo in (o, o.get('also', {})):
                            if oo.get('k') == 'ins' and str(oo.get('id', '')).startswith('canary'):
                                fired.add(oo['id'])
            expected = set()
            for (_, meta) in []:
                pass
            expected = set(m.group(0) for m in re.finditer(r'canary(?:loop\d+)?:[^*]+?(?=\*/)', gc.text))
            res['canary'] = {'fired': fired, 'expected': expected, 'undecided': [], 'wall_s': cvr['wall_s']}
        results[uname] = res
    return results


def main():
    ap = argparse.ArgumentParser()
    ap.add_argument('property')
    ap.add_argument('--tier', default=os.environ.get('VERIF_TIER', 'quick'), choices=['quick', 'thorough'])
    ap.add_argument('--replay')
    ap.add_argument('--keep', action='store_true')
    args = ap.parse_args()
    pid = args.property
    if pid not in propdefs.PROPS:
        print('unknown or unclaimed property %s' % pid)
        return 2
    seed = int(os.environ.get('VERIF_SEED', '0') or 0)
    if args.replay:
        print(open(args.replay).read())
        print('--- re-running the check of %s on the current tree ---' % pid)
    t0 = time.time()
    scratch = os.environ.get('VERIF_SCRATCH') or '/var/tmp/saphyr-verif.%d' % os.getpid()
    os.makedirs(scratch, exist_ok=True)
    try:
        rc = run_check(pid, args.tier, seed, scratch, t0)
    except Undecided as e:
        print('UNDECIDED property=%s reason=%s' % (pid, e))
        rc = 2
    except Exception:
        traceback.print_exc()
        print('UNDECIDED property=%s reason=framework-exception' % pid)
        rc = 2
    finally:
        if not args.keep and not os.environ.get('VERIF_SCRATCH'):
            shutil.rmtree(scratch, ignore_errors=True)
    return rc


def run_check(pid, tier, seed, scratch, t0):
    pdef = propdefs.PROPS[pid]
    results = run_units(pid, tier, scratch, want_canary=(tier == 'thorough'))
    known = load_known()
    my_known = [k for k in known['finding'] if k['property'] == pid]
    all_fail = []
    undecided = list(UNIT_UNDECIDED)
    obligations = 0
    per_fn_all = {}
    assumed_all = []
    under_contract = []
    external = []
    rewrites = []
    trusted = {}
    smt_ms = 0
    cmds = []
    fn_times = {}
    notes = []
    for uname, r in results.items():
        g = r['g']
        contracts = g.contracts
        n, per_fn, assumed = count_obligations(pid, contracts, r['clause_tab'])
        obligations += n
        per_fn_all.update(per_fn)
        assumed_all += assumed
        relevant = set(lab for lab, c in contracts.items() if pid in c['props'])
        for f in r['failures']:
            pr = route(f, contracts)
            if pid in pr:
                all_fail.append(dict(f, unit=uname))
        # undecided diagnostics: those attributed to a function only concern that function's properties
        for u in r['undecided']:
            if isinstance(u, dict):
                if u.get('partial') and any(f['fn'] == u['fn'] for f in all_fail):
                    continue    # this property already has a failed obligation of that function: it is decided
                if u['fn'] is None or u['fn'] in relevant:
                    if u['msg'] not in undecided:
                        undecided.append(u['msg'])
            else:
                undecided.append(u)
        if g.lost_anchors:
            lost_fns = set(x.split(' ')[0] for x in g.lost_anchors)
            hit = [f for f in all_fail if f['fn'] in lost_fns]
            if hit:
                undecided.append('anchor-lost: %s' % ', '.join(g.lost_anchors))
        # a failing function that calls a function without contract which it did not call on the unchanged tree
        # (contracts/loop_fingerprints.json): the failure means "the new callee needs a contract", not a violation
        known_calls = FINGERPRINTS.get('calls', {})
        for f in all_fail:
            if f.get('unit') != uname:
                continue
            new = sorted(set(g.uncontracted_calls.get(f['fn'], [])) - set(known_calls.get(f['fn'], [])))
            if new:
                msg = 'needs-contract: %s now calls %s, which has no contract' % (f['fn'], ', '.join(new))
                if msg not in undecided:
                    undecided.append(msg)
        for dl in g.dropped_loops:
            notes.append('loop contract dropped: ' + dl)
        for u in g.under_contract:
            lab = label_of(u['ctx'], u['fn'])
            if lab in relevant:
                under_contract.append('%s:%d %s' % (u['file'], u['line'], lab))
        external += ['%s %s (%s)' % (e['file'], label_of(e['ctx'], e['fn']), e['mode']) for e in g.external_body]
        rewrites += g.rewrites
        ts = trusted_scan(g.text)
        for k, v in ts.items():
            trusted[k] = trusted.get(k, 0) + v
        summ = r['vr'].get('summary') or {}
        try:
            smt_ms += summ['times-ms']['smt']['smt-run']
            for mt in summ['times-ms']['smt']['smt-run-module-times']:
                for fb in mt.get('function-breakdown', []):
                    fn_times[fb['function']] = fb.get('time', 0)
        except Exception:
            pass
        cmds.append(r['vr']['cmd'].replace(scratch, '$SCRATCH'))
        if r['canary'] is not None:
            vac = []
            for cid in sorted(r['canary']['expected']):
                lab = cid.split(':', 1)[1]
                if lab in relevant and cid not in r['canary']['fired']:
                    vac.append(cid)
            if vac:
                undecided.append('vacuous: `assert(false)` verified at %s' % ', '.join(vac))

    # extra (non-Verus) engines registered for this property
    extra_cov = {}
    kani_checks = 0
    kani_samples = []
    for eng in pdef.get('extra', []):
        mod = __import__(eng)
        e_fail, e_und, e_cov = mod.run(pid, tier, seed, scratch, REPO)
        all_fail += e_fail
        undecided += e_und
        extra_cov[eng] = e_cov
        obligations += e_cov.get('obligations', 0)
        cmds += e_cov.get('cmds', [])
        for hn, hv in e_cov.get('harnesses', {}).items():
            kani_checks += hv.get('cbmc_checks') or 0
            kani_samples.append({'harness': hn, 'kind': hv['kind'], 'bound': hv['bound'], 'checks': hv.get('cbmc_checks'),
                                 'status': hv['status'], 'what': hv['what']})

    if obligations == 0:
        undecided.append('vacuous: no obligation is routed to %s' % pid)

    # known findings
    violations = []
    known_hits = []
    for f in all_fail:
        hit = None
        for k in my_known:
            if k.get('obligation') and (k['obligation'] == f['id'] or re.fullmatch(k['obligation'], f['id'] or '')):
                hit = k
                break
        if hit:
            known_hits.append((f, hit))
        else:
            violations.append(f)

    failed_ids = sorted(set(f['id'] for f in all_fail))
    known_ids = sorted(set(f['id'] for f, _ in known_hits))
    # obligations listed as known findings are reported separately (KNOWN-FINDING lines, coverage.known_findings);
    # `obligations` counts the ones this tree is expected to discharge
    obligations_total = obligations
    obligations = max(0, obligations - len(known_ids))
    discharged = max(0, obligations - len([i for i in failed_ids if i not in known_ids]))
    wall = time.time() - t0
    samples = []
    for uname, r in results.items():
        for lab, c in r['g'].contracts.items():
            if pid in c['props'] and c['mode'] == 'verify':
                for cl in r['clause_tab'][lab]['sig']:
                    if cl['section'] == 'ensures' and len(samples) < 12:
                        samples.append({'function': lab, 'clause': cl['text'][:300], 'status':
                                        'failed' if any(f['fn'] == lab and f.get('clause') == cl['text'] for f in all_fail)
                                        else 'discharged'})
    level = pdef.get('level', 'proof')
    ev = {
        'property_id': pid, 'tier': tier, 'seed': seed, 'level': level,
        'coverage': {
            'obligations': obligations, 'discharged': discharged,
            'checker_cmd': ' ; '.join(cmds) if cmds else pdef.get('checker_cmd', ''),
            'trusted_base': propdefs.trusted_base(pid) + ['assumed contract (not proved): ' + a for a in assumed_all]
                + ['scan of generated units: %s' % json.dumps(trusted)],
            'samples': samples or [{'note': 'see extra engines'}],
            'back_end': 'verus 0.2026.09.13 (z3)' + (' + ' + ', '.join(pdef.get('extra', [])) if pdef.get('extra') else ''),
            'obligation_counting_rule': 'per function under contract: each ensures/decreases clause, each loop invariant '
                'clause twice (entry, preservation), each loop decreases, plus one bundled obligation for the checks Verus '
                'generates by itself in the body (callee preconditions, unwrap/expect, unreachable!, assert!, overflow, '
                'indexing); the bundled one is counted under C01 when the function is routed to C01; a tagged assertion of a '
                'proof block counts once',
            'functions_under_contract': sorted(set(under_contract)),
            'obligations_per_function': per_fn_all,
            'functions_not_under_contract_in_these_units': len(external),
            'rewrites_applied': rewrites[:60],
            'fidelity': 'ok (generated units minus marked insertions == /repo sources, token for token)',
            'smt_time_ms': smt_ms,
            'unit_wall_s': {u: round(r['vr']['wall_s'], 2) for u, r in results.items()},
            'result_from_cache': {u: bool(r['vr'].get('cached')) for u, r in results.items()},
            'failed_obligations': failed_ids,
            'obligations_including_known_findings': obligations_total,
            'known_finding_obligations': known_ids,
            'known_findings': [h[1]['text'] for h in known_hits],
            'not_decided': pdef.get('not_decided', []),
            'canaries': {u: ('%d of %d vacuity canaries (assert(false) at function entry / loop body entry) failed as they must'
                             % (len(r['canary']['fired']), len(r['canary']['expected']))) if r['canary'] else 'not run (thorough tier only)'
                         for u, r in results.items()},
            'extra_engines': extra_cov,
            'contract_adaptation': notes,
        },
        'assumptions': propdefs.assumptions(pid),
        'wall_s': round(wall, 2),
        'violations': len(violations),
    }
    if level == 'model_checking':
        ev['coverage'].setdefault('evaluations', max(1, obligations))
        ev['coverage'].setdefault('distinct_nontrivial', max(2, obligations))
    if kani_samples:
        ev['coverage']['samples'] = (ev['coverage']['samples'] if samples else []) + kani_samples
        ev['coverage']['evaluations'] = kani_checks + obligations
        ev['coverage']['distinct_nontrivial'] = max(2, len(kani_samples)) if len(kani_samples) >= 2 else len(kani_samples) + len(samples)
        ev['coverage']['rule'] = ('one evaluation = one CBMC property check of a Kani harness over fully symbolic inputs within the stated '
                                  'bound (or one Verus clause); distinct_nontrivial counts harnesses/clauses with different obligations')
        ev['coverage']['exhaustive'] = False
    os.makedirs(os.path.join(ROOT, 'evidence'), exist_ok=True)

    kani_violations = [v for v in violations if v.get('kind') == 'kani']
    if undecided:
        ev['coverage']['undecided'] = undecided[:20]
        json.dump(ev, open(os.path.join(ROOT, 'evidence', pid + '.json'), 'w'), indent=1)
        for u in undecided[:10]:
            print('UNDECIDED property=%s reason=%s' % (pid, u.replace('\n', ' ')[:500]))
        # a failed Kani harness is a failure of the real code within its bound: it stands even when a Verus unit
        # of the same property could not be decided (e.g. its contracts no longer apply to the changed text)
        if not kani_violations:
            return 2
        violations = kani_violations

    json.dump(ev, open(os.path.join(ROOT, 'evidence', pid + '.json'), 'w'), indent=1)
    seen = set()
    for f, k in known_hits:
        if k['text'] in seen:
            continue
        seen.add(k['text'])
        print('KNOWN-FINDING: property=%s %s' % (pid, k['text']))
    if violations:
        rp = write_replay(pid, violations, results, scratch, tier)
        tail = ''
        wit = None
        try:
            kv = [v for v in violations if v.get('kind') == 'kani']
            if kv:
                import kengine
                pb = kengine.playback(pid, kv[0], scratch, REPO)
                if pb:
                    with open(rp, 'a') as fh:
                        fh.write('\nKani concrete playback (counterexample values) for %s:\n%s\n' % (kv[0]['harness'], pb))
                    wit = True
            if not wit:
                import witness
                wit = witness.search(pid, violations, REPO, rp)
        except Exception as e:  # witness search is best effort, never decides
            wit = wit or None
        if not wit:
            tail = ' no-failing-input-found'
        print('VIOLATION property=%s replay=%s%s' % (pid, rp, tail))
        for v in violations[:8]:
            print('  failed obligation %s  (%s)  %s' % (v['id'], v['message'], v.get('repo_loc') or ''))
        return 1
    print('OK property=%s tier=%s obligations=%d discharged=%d wall=%.1fs' % (pid, tier, obligations, discharged, wall))
    return 0


def write_replay(pid, violations, results, scratch, tier):
    d = os.path.join(ROOT, 'evidence', 'replays')
    os.makedirs(d, exist_ok=True)
    h = hashlib.sha256(('|'.join(sorted(v['id'] or '' for v in violations))).encode()).hexdigest()[:10]
    p = os.path.join(d, '%s-%s.txt' % (pid, h))
    with open(p, 'w') as fh:
        fh.write('REPLAY for property %s (tier %s)\n' % (pid, tier))
        fh.write('re-run with: bin/check %s --replay %s\n\n' % (pid, p))
        for v in violations:
            fh.write('=' * 100 + '\n')
            fh.write('failed obligation : %s\n' % v['id'])
            fh.write('function          : %s\n' % v['fn'])
            fh.write('kind              : %s (%s)\n' % (v['kind'], v['message']))
            if v.get('clause'):
                fh.write('contract clause   : %s\n' % v['clause'])
            if v.get('repo_loc'):
                fh.write('location in /repo : %s\n' % v['repo_loc'])
            fh.write('verifier output (generated unit line numbers):\n%s\n' % (v.get('rendered') or ''))
    return p


if __name__ == '__main__':
    sys.exit(main())
