"""Properties not claimed (yet), each with the reason that goes into MANIFEST.not_applicable."""
NA = {
    'C03': 'not applicable: the oracle is the YAML 1.2 grammar applied to characters; no function-level contract expresses it (needs a formalised grammar and a whole-pipeline refinement proof); its mechanisms are covered for safety and well-nestedness under C01/C02',
    'C13': 'not applicable: whole-pipeline functional statement whose oracle is a JSON parser; the pieces that have contracts are decided under C04 (escapes), C08 (numbers/literals) and C02 (nesting)',
    'C20': 'not applicable: rests on derived Hash/Eq and on hashlink::LinkedHashMap (not code of this repository that a contract can be attached to); Kani on the real types did not finish one insert + two lookups in 10 minutes',
}
