#!/usr/bin/env python3
"""Developer driver: generate a unit into a scratch dir and run verus on it."""
import sys, os, json, subprocess, time
sys.path.insert(0, os.path.dirname(os.path.abspath(__file__)))
import extract, units
repo = os.environ.get('VERIF_REPO', '/repo')
unit = getattr(units, sys.argv[1] + '_unit')(os.environ.get('TIER', 'quick'), '/var/tmp/vp') if sys.argv[1] == 'parser' else getattr(units, sys.argv[1] + '_unit')()
out = sys.argv[2] if len(sys.argv) > 2 else '/var/tmp/vp/unit_%s.rs' % unit['name']
g = extract.generate(repo, unit['mods'], unit['sidecar'], unit['prelude'], unit['features'])
open(out, 'w').write(g.text)
json.dump(g.linemap, open(out + '.map.json', 'w'))
print('generated', out, len(g.text.split('\n')), 'lines; under contract', len(g.under_contract), 'external_body', len(g.external_body), 'lost anchors', g.lost_anchors)
