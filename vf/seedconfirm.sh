#!/bin/bash
# usage: vf/seedconfirm.sh <name> <patch.diff> <demo.rs>
# Confirms a seeded change independently in a fresh scratch worktree of /repo:
#   1. the demo passes on the unchanged tree, 2. the patch applies and the whole test suite still passes,
#   3. the demo fails with the patch.  Removes the worktree and its build output afterwards.
set -u
NAME=$1; PATCH=$(readlink -f $2); DEMO=$(readlink -f $3)
WT=/tmp/confirm_$NAME; DP=/tmp/confirm_${NAME}_demo
rm -rf $DP; git -C /repo worktree remove --force $WT 2>/dev/null; rm -rf $WT
git -C /repo worktree add -q $WT HEAD || exit 2
mkdir -p $DP/src $DP/.cargo
cat > $DP/Cargo.toml <<EOT
[package]
name = "demo"
version = "0.1.0"
edition = "2021"
[dependencies]
saphyr-parser = { path = "$WT/parser" }
saphyr = { path = "$WT/saphyr" }
[workspace]
EOT
printf '[net]\noffline = true\n' > $DP/.cargo/config.toml; cp /repo/Cargo.lock $DP/; cp $DEMO $DP/src/main.rs
run_demo() { (cd $DP && cargo build -q --offline 2>/dev/null && timeout 120 ./target/debug/demo >/dev/null 2>&1); echo $?; }
A=$(run_demo); echo "demo on unchanged tree: exit $A"
git -C $WT apply $PATCH || { echo "patch does not apply"; exit 2; }
T=$(cd $WT && cargo test --workspace --no-fail-fast --offline 2>&1 | grep -E "^test result" | awk '{p+=$4; f+=$6} END {print p" passed "f" failed"}'); echo "test suite with patch: $T"
B=$(run_demo); echo "demo with patch: exit $B"
git -C /repo worktree remove --force $WT; rm -rf $DP
case "$T" in *" 0 failed") ;; *) echo "CONFIRM: NO (tests fail)"; exit 1;; esac
if [ "$A" = "0" ] && [ "$B" != "0" ]; then echo "CONFIRM: YES"; exit 0; else echo "CONFIRM: NO"; exit 1; fi
