"""Run Verus on a generated unit and turn its diagnostics into obligation records."""
import hashlib
import json
import os
import re
import subprocess
import sys
import time

sys.path.insert(0, os.path.dirname(os.path.abspath(__file__)))
import rsfn  # noqa: E402

VERIF_MSGS = [
    (re.compile(r'^postcondition not satisfied'), 'ensures'),
    (re.compile(r'^precondition not satisfied'), 'requires-at-call'),
    (re.compile(r'^assertion failed'), 'assert'),
    (re.compile(r'^invariant not satisfied'), 'invariant'),
    (re.compile(r'^loop invariant'), 'invariant'),
    (re.compile(r'^decreases not satisfied'), 'decreases'),
    (re.compile(r'^could not prove termination'), 'decreases'),
    (re.compile(r'^possible arithmetic (underflow/)?overflow'), 'overflow'),
    (re.compile(r'^possible arithmetic underflow'), 'overflow'),
    (re.compile(r'^possible division by zero'), 'overflow'),
    (re.compile(r'^possible bit shift'), 'overflow'),
    (re.compile(r'^unreachable'), 'unreachable'),
    (re.compile(r'^index out of bounds'), 'index'),
    (re.compile(r'^possible out of bounds'), 'index'),
    (re.compile(r'^cannot show'), 'assert'),
    (re.compile(r'^unable to prove'), 'assert'),
    (re.compile(r'^recommendation not met'), 'recommends'),
]
RLIMIT = re.compile(r'[Rr]esource limit|rlimit|timed? ?out', re.I)


def verus_version():
    try:
        out = subprocess.run(['verus', '--version'], capture_output=True, text=True, timeout=60).stdout
        return out.strip().replace('\n', ' ')
    except Exception as e:  # pragma: no cover
        return 'unknown (%s)' % e


def run(unit_path, threads=16, extra=None, timeout=1800, cache_dir=None, cache_key_extra=''):
    # -V spinoff-all: one solver instance per function, so the proof of one function cannot be perturbed by
    # solver state left behind by another (a change in function A then cannot flip B to rlimit or back)
    cmd = ['verus', unit_path, '--output-json', '--time', '--num-threads', str(threads), '--error-format=json',
           '-V', 'spinoff-all',
           # report every failing clause of a failing function (the default stops after two): a property whose clause
           # fails must hear about it even if a clause of another property fails in the same function
           '--multiple-errors', '16']
    if extra:
        cmd += extra
    text = open(unit_path).read()
    key = hashlib.sha256((text + '\0' + ' '.join(cmd[2:]) + '\0' + cache_key_extra).encode()).hexdigest()
    if cache_dir:
        cp = os.path.join(cache_dir, key + '.json')
        if os.path.exists(cp):
            try:
                d = json.load(open(cp))
                d['cached'] = True
                return d
            except Exception:
                pass
    t0 = time.time()
    try:
        pr = subprocess.run(cmd, capture_output=True, text=True, timeout=timeout,
                            cwd=os.path.dirname(unit_path) or '.')
        rc, out, err = pr.returncode, pr.stdout, pr.stderr
        timed_out = False
    except subprocess.TimeoutExpired as e:
        rc, out, err = -9, e.stdout or '', e.stderr or ''
        if isinstance(out, bytes):
            out = out.decode(errors='replace')
        if isinstance(err, bytes):
            err = err.decode(errors='replace')
        timed_out = True
    wall = time.time() - t0
    summary = None
    try:
        summary = json.loads(out)
    except Exception:
        # stdout may contain non-JSON noise before the summary
        m = re.search(r'\{\s*"func-details".*\}\s*$', out, re.S)
        if m:
            try:
                summary = json.loads(m.group(0))
            except Exception:
                summary = None
    diags = []
    for ln in err.split('\n'):
        ln = ln.strip()
        if not ln.startswith('{'):
            continue
        try:
            diags.append(json.loads(ln))
        except Exception:
            pass
    d = {'cmd': ' '.join(cmd), 'rc': rc, 'wall_s': wall, 'timed_out': timed_out, 'summary': summary,
         'diags': diags, 'stderr_tail': err[-4000:] if not diags else '', 'cached': False, 'key': key}
    if cache_dir and not timed_out:
        os.makedirs(cache_dir, exist_ok=True)
        tmp = os.path.join(cache_dir, key + '.tmp%d' % os.getpid())
        json.dump(d, open(tmp, 'w'))
        os.replace(tmp, os.path.join(cache_dir, key + '.json'))
    return d


def classify(diag):
    """-> (class, kind): class in verification | rlimit | other-error | warning | note."""
    lvl = diag.get('level')
    msg = diag.get('message', '')
    if lvl in ('warning', 'note', 'help'):
        return ('warning', None)
    if msg.startswith('aborting due to'):
        return ('note', None)
    if RLIMIT.search(msg):
        return ('rlimit', None)
    for rx, kind in VERIF_MSGS:
        if rx.search(msg):
            return ('verification', kind)
    return ('other-error', None)


def split_clauses(sig):
    """Split a spliced requires/ensures/invariant/decreases block into clauses.
    Returns list of dicts {section, idx, first_line, last_line, text, tag, props}."""
    out = []
    section = None
    cur = []
    cur_start = None
    depth = 0
    counts = {}
    lines = sig.split('\n')

    cur_col = [None]
    adepth = [0]

    def flush(end_line):
        nonlocal cur, cur_start
        txt = '\n'.join(cur).strip()
        if txt and section:
            counts[section] = counts.get(section, 0) + 1
            tag = None
            props = None
            m = re.search(r'//[^\n]*?#(\w[\w.\-]*)', txt)
            if m:
                tag = m.group(1)
            m = re.search(r'//.*\[((?:C\d+[ ,]*)+)\]', txt)
            if m:
                props = re.findall(r'C\d+', m.group(1))
            out.append({'section': section, 'idx': counts[section], 'first_line': cur_start, 'last_line': end_line,
                        'first_col': cur_col[0] if cur_col[0] is not None else 0,
                        'text': re.sub(r'\s+', ' ', re.sub(r'//.*', '', txt)).strip(), 'tag': tag, 'props': props})
        cur = []
        cur_start = None
        cur_col[0] = None

    for li, ln in enumerate(lines):
        code = re.sub(r'//.*', '', ln)
        m = re.match(r'\s*(requires|ensures|invariant|invariant_except_break|decreases|recommends|returns|no_unwind)\b(.*)$', code)
        if m and depth == 0:
            flush(li - 1)
            section = m.group(1)
            rest = m.group(2)
            ln_eff = rest
            cur_start = li
            # the keyword line may carry the first clause
            piece = ln[ln.index(m.group(1)) + len(m.group(1)):]
        else:
            piece = ln
            ln_eff = code
            if cur_start is None and code.strip():
                cur_start = li
        # split on top-level commas
        buf = ''
        comment_idx = piece.find('//')
        code_part = piece if comment_idx < 0 else piece[:comment_idx]
        comment_part = '' if comment_idx < 0 else piece[comment_idx:]
        base = len(ln) - len(piece)
        flushed_here = False
        for ci, ch in enumerate(code_part):
            if cur_col[0] is None and not ch.isspace() and not buf.strip():
                cur_col[0] = base + ci
            if ch in '([{':
                depth += 1
            elif ch in ')]}':
                depth -= 1
            # generic arguments of a turbofish (`f::<A, B>(..)`, `Map::<K, V>::empty()`) are not clause separators
            elif ch == '<' and (adepth[0] > 0 or code_part[max(0, ci - 2):ci] == '::'):
                adepth[0] += 1
            elif ch == '>' and adepth[0] > 0 and code_part[max(0, ci - 1):ci] not in ('-', '='):
                adepth[0] -= 1
            if ch == ',' and depth == 0 and adepth[0] == 0:
                cur.append(buf)
                if cur_start is None:
                    cur_start = li
                n_before = len(out)
                flush(li)
                flushed_here = flushed_here or len(out) > n_before
                buf = ''
            else:
                buf += ch
        if buf.strip():
            if cur_start is None:
                cur_start = li
            cur.append(buf + ' ' + comment_part)
        elif comment_part and flushed_here and out:
            # a trailing comment belongs to the last clause completed on this line
            m = re.search(r'//[^\n]*?#(\w[\w.\-]*)', comment_part)
            if m:
                out[-1]['tag'] = m.group(1)
            m = re.search(r'//.*\[((?:C\d+[ ,]*)+)\]', comment_part)
            if m:
                out[-1]['props'] = re.findall(r'C\d+', m.group(1))
    flush(len(lines) - 1)
    return out
