#!/bin/bash
# dev helper: per-function rlimit cost of the whole generated unit (top N)
cd /var/tmp/vp && verus unit_${1:-parser}.rs --output-json --time-expanded --num-threads 16 -V spinoff-all 2>/dev/null > out_te.txt
python3 - <<PY
import json
d=json.load(open('/var/tmp/vp/out_te.txt'))
rows=[]
for m in d['times-ms']['smt']['smt-run-module-times']:
    for f in m['function-breakdown']:
        rows.append((f.get('rlimit',0), f.get('time-micros',0)//1000, f['function'], f.get('success')))
rows.sort(reverse=True)
for r in rows[:${2:-12}]: print(r)
PY
