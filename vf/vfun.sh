#!/bin/bash
# dev helper: verify one function of the generated parser unit in isolation and print its rlimit count
# usage: vf/vfun.sh <module> <Type::fn> [rlimit]
cd /var/tmp/vp && verus unit_parser.rs --verify-only-module $1 --verify-function "$2" --rlimit ${3:-10} --triggers-mode silent --output-json --time-expanded 2>err1.txt > out1.txt
python3 - <<'PY'
import json
d=json.load(open('/var/tmp/vp/out1.txt'))
print(d['verification-results'])
for m in d['times-ms']['smt']['smt-run-module-times']:
    for f in m['function-breakdown']:
        if f['rlimit']: print(f['rlimit'], f['time-micros']//1000, f['function'], f['success'])
PY
grep -A16 "^error" err1.txt | head -${LINES_MAX:-60}
