#!/usr/bin/env python3
import sys, os, json
sys.path.insert(0, os.path.dirname(os.path.abspath(__file__)))
import runkani
crate = sys.argv[1]; appends = dict(a.split('=') for a in sys.argv[2].split(',')); hs = sys.argv[3].split(',')
sc = '/var/tmp/vp/ks'; os.makedirs(sc, exist_ok=True)
repo = os.environ.get('VERIF_REPO', '/repo')
d = runkani.build(crate, appends, repo, sc)
print('fidelity', runkani.fidelity(crate, appends, repo, d))
r = runkani.run(d, hs, jobs=int(os.environ.get('J', '4')), timeout=int(os.environ.get('T', '1800')), harness_timeout=int(os.environ['HT']) if os.environ.get('HT') else None)
print(r['rc'], round(r['wall_s'], 1))
for k, v in r['harnesses'].items():
    print(k, v['status'], v['time_s'], v['n_checks'], v['failed_checks'])
if not r['harnesses'] or os.environ.get('V'):
    print(r['tail'])
