"""Unit definitions: which /repo files make up each Verus unit."""
import os
from extract import ModSpec

HERE = os.path.dirname(os.path.abspath(__file__))
ROOT = os.path.dirname(HERE)
CONTRACTS = os.path.join(ROOT, 'contracts')


def parser_unit(tier='quick', scratch=None):
    ad = [(r'\barraydeque::', 'crate::arraydeque::')]
    root = ModSpec(name='', path='parser/src/lib.rs', file_key='lib.rs', children=[
        ModSpec('char_traits', 'parser/src/char_traits.rs', 'char_traits.rs'),
        ModSpec('input', 'parser/src/input.rs', 'input.rs', children=[
            ModSpec('buffered', 'parser/src/input/buffered.rs', 'input/buffered.rs', path_rewrites=ad),
            ModSpec('str', 'parser/src/input/str.rs', 'input/str.rs'),
        ]),
        ModSpec('scanner', 'parser/src/scanner.rs', 'scanner.rs'),
        ModSpec('parser', 'parser/src/parser.rs', 'parser.rs'),
    ])
    return {
        'name': 'parser',
        'mods': [root],
        'features': ['pattern', 'allocator_api', 'print_internals', 'panic_internals'],
        'prelude': [os.path.join(CONTRACTS, 'prelude_std.vrs'), os.path.join(CONTRACTS, 'prelude_arraydeque.vrs'),
                    os.path.join(CONTRACTS, 'spec_chars.vrs')],
        'sidecar': [os.path.join(CONTRACTS, x) for x in
                    ('char_traits.contracts', 'input.contracts', 'str.contracts', 'buffered.contracts')]
                   + [_scanner_sidecar(tier, scratch), os.path.join(CONTRACTS, 'parser.contracts')],
    }


BEGIN_MARK = '## <<<thorough-tier-replaces'
END_MARK = '## thorough-tier-replaces>>>'


def _scanner_sidecar(tier, scratch):
    """The quick tier uses contracts/scanner.contracts as it stands.  In the thorough tier the block between the two
    marker lines (the ASSUMED frame of scan_block_scalar) is replaced by contracts/scanner_thorough.contracts (the
    verified contract of that function, which costs minutes of solver time), written to a scratch file."""
    base = os.path.join(CONTRACTS, 'scanner.contracts')
    if tier != 'thorough':
        return base
    text = open(base).read()
    a = text.index(BEGIN_MARK)
    b = text.index(END_MARK) + len(END_MARK)
    repl = open(os.path.join(CONTRACTS, 'scanner_thorough.contracts')).read()
    out = text[:a] + repl + text[b:]
    d = scratch or '/var/tmp'
    path = os.path.join(d, 'scanner.thorough.contracts')
    open(path, 'w').write(out)
    return path


def encoding_unit():
    er = [(r'\bencoding_rs::', 'crate::encoding_rs::')]
    return {
        'name': 'encoding',
        'mods': [ModSpec('encoding', 'saphyr/src/encoding.rs', 'encoding.rs', path_rewrites=er)],
        'features': ['allocator_api'],
        'prelude': [os.path.join(CONTRACTS, 'prelude_encoding.vrs')],
        'sidecar': [os.path.join(CONTRACTS, 'encoding.contracts')],
    }


def loader_unit():
    rw = [(r'\bsaphyr_parser::', 'crate::saphyr_parser::'), (r'\bhashlink::', 'crate::hashlink::')]
    return {
        'name': 'loader',
        'mods': [ModSpec('loader', 'saphyr/src/loader.rs', 'loader.rs', path_rewrites=rw)],
        'features': ['allocator_api'],
        'prelude': [os.path.join(CONTRACTS, 'prelude_loader.vrs')],
        'sidecar': [os.path.join(CONTRACTS, 'loader.contracts')],
    }
