"""Fidelity check: the generated unit, with every marked insertion removed and every marked
deletion restored, must be token-identical to the concatenation of the /repo source files it was
built from (in unit order).  Independent of the generator's bookkeeping: works on the text only."""
import os
import re
import sys
sys.path.insert(0, os.path.dirname(os.path.abspath(__file__)))
import rsfn

V_RE = re.compile(r'/\*<V [^*]*\*/.*?/\*V>\*/', re.S)
W_RE = re.compile(r'/\*<W\*/.*?/\*W>\*/', re.S)
D_RE = re.compile(r'/\*<D (.*?) D>\*/', re.S)


def restore(text: str) -> str:
    text = W_RE.sub(' ', text)
    text = V_RE.sub(' ', text)
    text = D_RE.sub(lambda m: ' ' + m.group(1).replace('*\\/', '*/').replace('/\\*', '/*') + ' ', text)
    return text


def flat_files(mods):
    out = []
    for m in mods:
        out.append(m.path)
        out.extend(flat_files(m.children))
    return out


def check(generated_text: str, repo: str, mods) -> list:
    """Returns a list of mismatch descriptions (empty = faithful)."""
    got = [(t.kind, t.text) for t in rsfn.lex(restore(generated_text))]
    want = []
    for path in flat_files(mods):
        want.extend((t.kind, t.text) for t in rsfn.lex(open(os.path.join(repo, path)).read()))
    problems = []
    if got != want:
        n = min(len(got), len(want))
        i = 0
        while i < n and got[i] == want[i]:
            i += 1
        problems.append('token streams differ at token %d: generated %r vs source %r (lengths %d / %d)'
                        % (i, got[i:i + 6], want[i:i + 6], len(got), len(want)))
    return problems
