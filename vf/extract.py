"""Source -> Verus unit generator.

Wraps the *real* source files of /repo as modules inside one `verus! { }` block and splices the
sidecar contracts (contracts/*.contracts) into them.  Nothing of a function is re-typed: the
generator only INSERTS text (wrapped in /*<V id*/ ... /*V>*/ markers) and performs the logged
token-local rewrites R1..R4 (wrapped in /*<D orig D>*/ markers recording what was removed).
vf/fidelity.py undoes exactly these markers and compares the result with /repo token by token.
"""
import json, os
import re
import sys
from dataclasses import dataclass, field
from typing import Dict, List, Optional, Tuple

sys.path.insert(0, os.path.dirname(os.path.abspath(__file__)))
import rsfn  # noqa: E402

VOPEN = '/*<V %s*/'
VCLOSE = '/*V>*/'


class SpecError(Exception):
    """The sidecar no longer applies to the source (renamed function, lost loop...)."""


@dataclass
class Proof:
    mode: str          # 'after' | 'before' | 'start'
    pattern: str
    ordinal: int
    text: str
    cid: str
    loop: Optional[int] = None    # `in loop k`: the hint belongs to loop k and goes away with it


@dataclass
class Contract:
    file: str
    ctx: str
    name: str
    props: List[str]
    sig: str = ''                 # requires/ensures/decreases block (verbatim Verus)
    loops: Dict[int, str] = field(default_factory=dict)
    proofs: List[Proof] = field(default_factory=list)
    attrs: List[str] = field(default_factory=list)   # extra attributes
    rewrites: List[Tuple[str, str, str]] = field(default_factory=list)   # (rule, regex, replacement)
    ret_name: str = 'r'
    mode: str = 'verify'          # verify | external_body_spec | external | trusted
    line: int = 0
    src: str = ''

    @property
    def key(self):
        return (self.file, self.ctx, self.name)

    @property
    def label(self):
        return self.name if not self.ctx else '%s::%s' % (self.ctx.split()[-1], self.name)


@dataclass
class Insertion:
    file: str
    where: str        # 'module_end' | 'module_start' | 'ctx_start:<ctx>' | 'top'
    text: str
    cid: str


@dataclass
class Sidecar:
    contracts: Dict[Tuple[str, str, str], Contract] = field(default_factory=dict)
    insertions: List[Insertion] = field(default_factory=list)
    drops: List[Tuple[str, str, str]] = field(default_factory=list)   # (file, regex, why)
    canary: bool = False
    fingerprints: Optional[dict] = None


HEADER = re.compile(r'^(fn|trusted fn|spec-only fn|external fn)\s+(\S+)\s*::\s*(.*?)\s*::\s*(\w+)\s*(\[[^\]]*\])?\s*$')
HEADER2 = re.compile(r'^(fn|trusted fn|spec-only fn|external fn)\s+(\S+)\s*::\s*(\w+)\s*(\[[^\]]*\])?\s*$')


def parse_sidecar(paths: List[str]) -> Sidecar:
    sc = Sidecar()
    for path in paths:
        lines = open(path).read().split('\n')
        i = 0
        cur: Optional[Contract] = None
        while i < len(lines):
            ln = lines[i]
            s = ln.strip()
            if not s or s.startswith('##'):
                i += 1
                continue
            m = HEADER.match(s) or None
            m2 = HEADER2.match(s) if not m else None
            if m or m2:
                if m:
                    kind, file, ctx, name, props = m.groups()
                else:
                    kind, file, name, props = m2.groups()
                    ctx = ''
                pl = [p.strip() for p in (props or '[]')[1:-1].replace(',', ' ').split() if p.strip()]
                cur = Contract(file=file, ctx=ctx.strip(), name=name, props=pl, line=i + 1, src=path)
                cur.mode = {'fn': 'verify', 'trusted fn': 'trusted', 'spec-only fn': 'external_body_spec',
                            'external fn': 'external'}[kind]
                if cur.key in sc.contracts:
                    raise SpecError('%s:%d duplicate contract for %s' % (path, i + 1, cur.key,))
                sc.contracts[cur.key] = cur
                i += 1
                continue
            # block directives: `<directive> {` ... matching `}` at column 0
            m = re.match(r'^(sig|loop\s+\d+|proof\s+(after|before)\s+/(.*)/\s*#(\d+)(?:\s+in\s+loop\s+(\d+))?|proof\s+start|attr\s+.*|ret\s+\w+|'
                         r'insert\s+\S+\s+\S.*|drop\s+\S+\s+/(.*)/\s*(.*)|rewrite\s+R\d+\s+/.*/\s*=>.*)\s*(\{)?\s*$', s)
            if not m:
                raise SpecError('%s:%d cannot parse sidecar line: %s' % (path, i + 1, s))
            head = m.group(1)
            has_block = s.endswith('{')
            body = ''
            if has_block:
                j = i + 1
                buf = []
                while j < len(lines) and lines[j].strip() != '@end':
                    buf.append(lines[j])
                    j += 1
                if j >= len(lines):
                    raise SpecError('%s:%d unterminated block' % (path, i + 1))
                body = '\n'.join(buf)
                nxt = j + 1
            else:
                nxt = i + 1
            if head == 'sig':
                cur.sig = body
            elif head.startswith('loop'):
                cur.loops[int(head.split()[1])] = body
            elif head.startswith('proof'):
                if head.split()[1] == 'start':
                    cur.proofs.append(Proof('start', '', 1, body, 'proof.start'))
                else:
                    cur.proofs.append(Proof(m.group(2), m.group(3), int(m.group(4)), body,
                                            'proof.%s.%d' % (m.group(2), len(cur.proofs)),
                                            int(m.group(5)) if m.group(5) else None))
            elif head.startswith('attr'):
                cur.attrs.append(head[4:].strip().rstrip('{').strip())
            elif head.startswith('ret'):
                cur.ret_name = head.split()[1]
            elif head.startswith('rewrite'):
                mm = re.match(r'rewrite\s+(R\d+)\s+/(.*)/\s*=>\s?(.*)$', head)
                cur.rewrites.append((mm.group(1), mm.group(2), mm.group(3)))
            elif head.startswith('insert'):
                parts = head.split(None, 2)
                file = parts[1]
                where = parts[2].rstrip('{').strip()
                sc.insertions.append(Insertion(file, where, body, 'insert:%s:%d' % (os.path.basename(path), i + 1)))
            elif head.startswith('drop'):
                mm = re.match(r'drop\s+(\S+)\s+/(.*)/\s*(.*)$', head.rstrip('{').strip())
                sc.drops.append((mm.group(1), mm.group(2), mm.group(3)))
            i = nxt
    return sc


@dataclass
class ModSpec:
    name: str                  # module path inside the unit, e.g. 'input::str' -> nested
    path: str                  # path under repo root
    file_key: str              # how the sidecar names it, e.g. 'scanner.rs', 'input/str.rs'
    preamble: str = ''
    children: List['ModSpec'] = field(default_factory=list)
    path_rewrites: List[Tuple[str, str]] = field(default_factory=list)  # logged token rewrites


@dataclass
class GenResult:
    text: str
    linemap: List[dict]              # per generated line (1-based index-1): origin
    under_contract: List[dict]
    external_body: List[dict]
    rewrites: List[dict]
    dropped: List[dict]
    clause_ids: Dict[str, dict]
    lost_anchors: List[str]
    dropped_loops: List[str] = field(default_factory=list)
    loop_heads: Dict[str, List[str]] = field(default_factory=dict)
    uncontracted_calls: Dict[str, List[str]] = field(default_factory=dict)
    contracts: Dict[str, dict] = field(default_factory=dict)


class Emitter:
    def __init__(self):
        self.parts: List[Tuple[str, dict]] = []

    def src(self, text, file, offset_line):
        if text:
            self.parts.append((text, {'k': 'src', 'file': file, 'line': offset_line}))

    def ins(self, text, cid, extra=None):
        d = {'k': 'ins', 'id': cid}
        if extra:
            d.update(extra)
        assert '/*V>*/' not in text and '*' not in cid, cid
        if '//' in text.split('\n')[-1]:
            text += '\n'
        self.parts.append((VOPEN % cid + text + VCLOSE, d))

    def raw(self, text, cid='wrap'):
        self.parts.append(('/*<W*/' + text + '/*W>*/', {'k': 'wrap', 'id': cid}))

    def deleted(self, text):
        # records removed source text inside a comment; `*/` cannot occur in the removed tokens we handle
        assert '*/' not in text
        self.parts.append(('/*<D ' + text + ' D>*/', {'k': 'del'}))

    def finish(self):
        out = []
        linemap = []
        for text, meta in self.parts:
            lines = text.split('\n')
            for li, l in enumerate(lines):
                if li > 0:
                    out.append('\n')
                # line map entry is created when a new generated line begins
                if li > 0 or not linemap:
                    linemap.append(None)
                if meta['k'] == 'src':
                    o = {'k': 'src', 'file': meta['file'], 'line': meta['line'] + li}
                else:
                    o = dict(meta)
                    if meta['k'] == 'ins':
                        o['subline'] = li
                # first non-blank content on this generated line wins (markers alone do not count)
                core = re.sub(r'/\*<V [^*]*\*/|/\*V>\*/|/\*<W\*/|/\*W>\*/', '', l).strip()
                if not core:
                    continue_line = True
                else:
                    continue_line = False
                if continue_line:
                    out.append(l)
                    continue
                if linemap[-1] is None and l.strip():
                    linemap[-1] = o
                elif linemap[-1] is not None and meta['k'] == 'ins' and linemap[-1]['k'] != 'ins' and l.strip():
                    linemap[-1] = dict(linemap[-1], also=o)
                out.append(l)
        for i, x in enumerate(linemap):
            if x is None:
                linemap[i] = {'k': 'blank'}
        return ''.join(out), linemap


def loop_header(toks, lp) -> str:
    """Normalised text of a loop header: the tokens from loop/while/for up to the opening brace."""
    return ' '.join(t.text for t in toks[lp.kw_idx:lp.body_open])


def strip_inner_docs(src: str) -> str:
    """Blank out `//!` lines and `#![...]` attributes (keeps line numbering)."""
    out = []
    for ln in src.split('\n'):
        s = ln.lstrip()
        if s.startswith('//!'):
            out.append('')
        elif s.startswith('#!['):
            out.append('/*<D ' + s.replace('*/', '* /') + ' D>*/' if False else '')
        else:
            out.append(ln)
    return '\n'.join(out)


def gen_file(em: Emitter, repo: str, mod: ModSpec, sc: Sidecar, res: dict, unit_props=None):
    path = os.path.join(repo, mod.path)
    src = open(path).read()
    toks = rsfn.lex(src)
    fns, pairs = rsfn.find_items(toks)
    fkey = mod.file_key

    # ---- collect edits: (offset, order, kind, payload) ----
    edits = []   # insert: (pos, seq, 'ins', text, cid, extra) ; delete: (pos, seq, 'del', end)
    seq = [0]

    def add_ins(pos, text, cid, extra=None):
        seq[0] += 1
        edits.append((pos, seq[0], 'ins', text, cid, extra))

    def add_del(start, end, why):
        seq[0] += 1
        edits.append((start, seq[0], 'del', end, why, None))

    # inner docs / crate attributes / child `mod x;` declarations / cfg(test) modules
    for m in re.finditer(r'(?m)^[ \t]*//!.*$', src):
        add_del(m.start(), m.end(), 'inner-doc')
    i = 0
    n = len(toks)
    while i < n:
        t = toks[i]
        if t.text == '#' and i + 2 < n and toks[i + 1].text == '!' and toks[i + 2].text == '[':
            close = pairs[i + 2]
            add_del(t.start, toks[close].end, 'crate-attr')
            res['dropped'].append({'file': fkey, 'line': t.line, 'what': src[t.start:toks[close].end]})
            i = close + 1
            continue
        if t.text == '#' and i + 1 < n and toks[i + 1].text == '[':
            close = pairs[i + 1]
            txt = ''.join(x.text for x in toks[i + 2:close])
            if txt == 'cfg(test)':
                # drop the attribute and the following item (mod ... { })
                j = close + 1
                while toks[j].text != '{' and toks[j].text != ';':
                    j += 1
                end = pairs[j] if toks[j].text == '{' else j
                add_del(t.start, toks[end].end, 'cfg-test')
                res['dropped'].append({'file': fkey, 'line': t.line, 'what': '#[cfg(test)] item'})
                i = end + 1
                continue
            if txt.startswith('cfg(feature="debug_prints")'):
                j = close + 1
                while toks[j].text not in ('{', ';'):
                    j += 1
                end = pairs[j] if toks[j].text == '{' else j
                add_del(t.start, toks[end].end, 'cfg-debug')
                res['dropped'].append({'file': fkey, 'line': t.line, 'what': 'cfg(feature=debug_prints) item'})
                i = end + 1
                continue
            if txt.startswith('cfg(not(feature="debug_prints"))'):
                add_del(t.start, toks[close].end, 'cfg-attr')
                i = close + 1
                continue
            if txt.startswith('derive(') and ('Debug' in txt):
                # derive(Debug) is kept; Verus ignores it.
                pass
        # `mod x;` declarations (children are inlined by the wrapper)
        if t.kind == 'id' and t.text == 'mod' and i + 2 < n and toks[i + 2].text == ';':
            s = i
            # walk back over pub / pub(crate) / #[macro_use]
            while s > 0 and (toks[s - 1].text in ('pub',) or toks[s - 1].text == ')'):
                if toks[s - 1].text == ')':
                    s -= 3
                else:
                    s -= 1
            if s >= 0 and toks[s].text == '(':
                s -= 1
            while s >= 2 and toks[s - 1].text == ']':
                o = [oo for oo, cc in pairs.items() if cc == s - 1][0]
                if toks[o - 1].text == '#':
                    s = o - 1
                else:
                    break
            add_del(toks[s].start, toks[i + 2].end, 'mod-decl')
            i += 3
            continue
        i += 1

    for (dfile, rx, why) in sc.drops:
        if dfile != fkey:
            continue
        found = False
        for m in re.finditer(rx, src, re.S):
            add_del(m.start(), m.end(), 'drop:' + why)
            res['dropped'].append({'file': fkey, 'line': src.count('\n', 0, m.start()) + 1, 'what': why})
            found = True
        if not found:
            raise SpecError('drop pattern /%s/ does not match %s' % (rx, fkey))

    # path rewrites (e.g. saphyr_parser:: -> crate::saphyr_parser::) are token-local and logged
    for (a, b) in mod.path_rewrites:
        for m in re.finditer(a, src):
            add_del(m.start(), m.end(), 'path')
            add_ins(m.end(), m.expand(b), 'path-rewrite')
            res['rewrites'].append({'rule': 'path', 'file': fkey, 'line': src.count('\n', 0, m.start()) + 1})

    # ---- impl blocks of traits Verus does not know: whole impl is external ----
    ext_ctx = set()
    for im in rsfn.find_impls(toks, pairs):
        if re.match(r'impl (Error|fmt::Display|Display|std::fmt::Display|fmt::Debug|Debug) for ', im['name']):
            add_ins(toks[im['attr_start']].start, '#[verifier::external]\n', 'ext-impl:%s' % im['name'])
            ext_ctx.add(im['name'])
            res['external_body'].append({'file': mod.path, 'line': toks[im['kw']].line, 'fn': '*', 'ctx': im['name'],
                                         'mode': 'external impl (trait unknown to Verus)'})

    # ---- functions ----
    seen = set()
    uncontracted = set(f.name for f in fns if not f.in_test and f.has_body
                       and (sc.contracts.get((fkey, f.ctx, f.name)) is None
                            or not sc.contracts[(fkey, f.ctx, f.name)].sig.strip()))
    for f in fns:
        if f.in_test or f.ctx in ext_ctx:
            continue
        key = (fkey, f.ctx, f.name)
        c = sc.contracts.get(key)
        line = toks[f.fn_idx].line
        if c is not None:
            seen.add(key)
        label = {'file': mod.path, 'line': line, 'fn': f.name, 'ctx': f.ctx}
        is_trait_decl = f.ctx.startswith('trait ')
        if not f.has_body:
            # required trait method: only a spec can be attached
            if c is not None and c.sig.strip():
                if f.ret_arrow is not None:
                    _name_ret(toks, f, add_ins, add_del, c.ret_name, res, fkey)
                add_ins(toks[f.sig_end].start, '\n' + c.sig + '\n', 'sig:%s' % c.label, {'contract': c.label})
                res['under_contract'].append(dict(label, mode='trait-required-spec', props=c.props))
            continue
        if c is None or c.mode == 'external':
            if c is not None and c.mode == 'external':
                add_ins(toks[f.attr_start].start, '#[verifier::external]\n', 'ext:%s' % f.name)
                res['external_body'].append(dict(label, mode='external'))
                continue
            # mut self receiver is unsupported even in signatures -> external
            ptxt = ' '.join(t.text for t in toks[f.params_open + 1:f.params_open + 3])
            if ptxt.startswith('mut self'):
                add_ins(toks[f.attr_start].start, '#[verifier::external]\n', 'ext:%s' % f.name)
                res['rewrites'].append({'rule': 'R4', 'file': fkey, 'line': line, 'fn': f.name})
                res['external_body'].append(dict(label, mode='external(R4 mut self)'))
                continue
            add_ins(toks[f.attr_start].start, '#[verifier::external_body]\n', 'eb:%s' % f.name)
            _fix_params(toks, f, add_ins, add_del, res, fkey)
            res['external_body'].append(dict(label, mode='external_body'))
            continue
        # function with a sidecar entry
        _fix_params(toks, f, add_ins, add_del, res, fkey)
        for a in c.attrs:
            add_ins(toks[f.attr_start].start, a + '\n', 'attr:%s' % c.label)
        if c.mode in ('external_body_spec', 'trusted'):
            add_ins(toks[f.attr_start].start, '#[verifier::external_body]\n', 'eb:%s' % f.name)
            res['external_body'].append(dict(label, mode='external_body+assumed-spec', props=c.props))
        else:
            res['under_contract'].append(dict(label, mode='verified', props=c.props, nloops=len(f.loops)))
        if c.sig.strip():
            if f.ret_arrow is not None:
                _name_ret(toks, f, add_ins, add_del, c.ret_name, res, fkey)
            add_ins(toks[f.sig_end].start, '\n' + c.sig + '\n', 'sig:%s' % c.label, {'contract': c.label})
        if c.mode != 'verify':
            continue
        # loops are addressed by their ordinal on the unchanged tree.  When loops have been removed, the remaining
        # ones are matched to their old ordinals by header text (contracts/loop_fingerprints.json, committed); the
        # contract of a removed loop, and the hints declared `in loop k`, go away with it.
        heads = [loop_header(toks, lp) for lp in f.loops]
        fp = (sc.fingerprints or {}).get('%s::%s' % (fkey, c.label))
        ordinal_of = {i: i + 1 for i in range(len(f.loops))}     # current index -> ordinal of the contract
        dropped_loops = set()
        if fp is not None and len(heads) < len(fp):
            pos = 0
            ordinal_of = {}
            for i, h in enumerate(heads):
                while pos < len(fp) and fp[pos] != h:
                    pos += 1
                if pos >= len(fp):
                    raise SpecError('%s: the loops of %s no longer match the recorded ones' % (c.src, c.label))
                ordinal_of[i] = pos + 1
                pos += 1
            dropped_loops = set(range(1, len(fp) + 1)) - set(ordinal_of.values())
            res['dropped_loops'].append('%s: loop(s) %s no longer exist' % (c.label, ', '.join(map(str, sorted(dropped_loops)))))
        index_of = {o: i for i, o in ordinal_of.items()}
        for k, ltxt in c.loops.items():
            if k in dropped_loops:
                continue
            if k not in index_of:
                raise SpecError('%s: loop %d not found in %s (has %d loops)' % (c.src, k, c.label, len(f.loops)))
            lp = f.loops[index_of[k]]
            add_ins(toks[lp.body_open].start, '\n' + ltxt + '\n', 'loop%d:%s' % (k, c.label), {'contract': c.label})
        body_s = toks[f.sig_end].end
        body_e = toks[f.body_close].start
        body = src[body_s:body_e]
        res['loop_heads']['%s::%s' % (fkey, c.label)] = heads
        # calls of the forms self.f( / Self::f( / f( to functions of this file that have no contract
        called = set()
        for ti in range(f.sig_end + 1, f.body_close - 1):
            t = toks[ti]
            if t.kind == 'id' and toks[ti + 1].text == '(' and t.text in uncontracted:
                prev = toks[ti - 1].text
                prev2 = toks[ti - 2].text if ti >= 2 else ''
                if (prev == '.' and prev2 == 'self') or (prev == '::' and prev2 == 'Self') or prev not in ('.', '::', 'fn'):
                    called.add(t.text)
        if called:
            res['uncontracted_calls'][c.label] = sorted(called)
        if sc.canary:
            # vacuity canaries: these assertions MUST fail (reachable entry, satisfiable invariants)
            add_ins(body_s, '\nproof { assert(false); }\n', 'canary:%s' % c.label, {'contract': c.label})
            for k, lp in enumerate(f.loops):
                if ordinal_of.get(k) in c.loops:
                    add_ins(toks[lp.body_open].end, '\nproof { assert(false); }\n', 'canaryloop%d:%s' % (ordinal_of[k], c.label),
                            {'contract': c.label})
        for p in c.proofs:
            if p.mode == 'start':
                if p.text.lstrip().startswith('@raw'):
                    add_ins(body_s, '\n' + p.text.lstrip()[4:] + '\n', '%s:%s' % (p.cid, c.label), {'contract': c.label})
                else:
                    add_ins(body_s, '\nproof {\n' + p.text + '\n}\n', '%s:%s' % (p.cid, c.label), {'contract': c.label})
                continue
            if p.loop is not None and p.loop in dropped_loops:
                continue
            ms = list(re.finditer(p.pattern, body))
            if len(ms) < p.ordinal:
                res['lost_anchors'].append('%s /%s/#%d' % (c.label, p.pattern, p.ordinal))
                continue
            m = ms[p.ordinal - 1]
            pos = body_s + (m.end() if p.mode == 'after' else m.start())
            txt = p.text
            if not txt.lstrip().startswith('@raw'):
                txt = '\nproof {\n' + txt + '\n}\n'
            else:
                txt = txt.lstrip()[4:]
            add_ins(pos, txt, '%s:%s' % (p.cid, c.label), {'contract': c.label})
        for (rule, rx, rep) in c.rewrites:
            ms = list(re.finditer(rx, body))
            if not ms:
                raise SpecError('%s: rewrite %s /%s/ does not match in %s' % (c.src, rule, rx, c.label))
            for m in ms:
                add_del(body_s + m.start(), body_s + m.end(), rule)
                add_ins(body_s + m.end(), m.expand(rep), rule)
                res['rewrites'].append({'rule': rule, 'file': fkey, 'line': src.count('\n', 0, body_s + m.start()) + 1,
                                        'fn': f.name, 'from': m.group(0), 'to': m.expand(rep)})
        # R2: or-pattern with guard inside verified bodies
        _rewrite_or_guard(toks, pairs, f, src, add_ins, add_del, res, fkey)

    for key, c in sc.contracts.items():
        if key[0] == fkey and key not in seen:
            raise SpecError('%s:%d contract for %s::%s::%s has no matching function in %s'
                            % (c.src, c.line, key[0], key[1], key[2], mod.path))

    # ---- insertions keyed by context ----
    for ins in sc.insertions:
        if ins.file != fkey:
            continue
        if ins.where == 'module_end':
            add_ins(len(src), '\n' + ins.text + '\n', ins.cid)
        elif ins.where == 'module_start':
            add_ins(0, '\n' + ins.text + '\n', ins.cid)
        elif ins.where.startswith('in '):
            ctx = ins.where[3:].strip()
            pos = _find_ctx_open(toks, pairs, ctx)
            if pos is None:
                raise SpecError('insertion target `%s` not found in %s' % (ctx, fkey))
            add_ins(pos, '\n' + ins.text + '\n', ins.cid)
        elif ins.where.startswith('before '):
            rx = ins.where[7:].strip().strip('/')
            m = re.search(rx, src)
            if not m:
                raise SpecError('insertion anchor /%s/ not found in %s' % (rx, fkey))
            add_ins(m.start(), ins.text + '\n', ins.cid)
        else:
            raise SpecError('unknown insertion target %s' % ins.where)

    # ---- apply ----
    edits.sort(key=lambda e: (e[0], 0 if e[2] == 'ins' else 1, e[1]))
    pos = 0
    skip_until = 0
    for e in edits:
        at = e[0]
        if at < skip_until and e[2] == 'ins':
            # insertion inside a deleted region: ignore
            continue
        if at < skip_until and e[2] == 'del':
            continue
        if at > pos:
            em.src(src[pos:at], mod.path, src.count('\n', 0, pos) + 1)
            pos = at
        if e[2] == 'ins':
            em.ins(e[3], e[4], e[5])
        else:
            end = e[3]
            removed = src[at:end]
            em.deleted(removed.replace('*/', '*\\/').replace('/*', '/\\*'))
            # keep line numbering roughly stable
            pos = end
            skip_until = end
    if pos < len(src):
        em.src(src[pos:], mod.path, src.count('\n', 0, pos) + 1)


def _find_ctx_open(toks, pairs, ctx):
    n = len(toks)
    i = 0
    while i < n:
        t = toks[i]
        if t.kind == 'id' and t.text in ('impl', 'trait', 'struct', 'enum') :
            j = i + 1
            while j < n and toks[j].text not in ('{', ';'):
                if toks[j].text in ('(', '['):
                    j = pairs[j]
                j += 1
            if j < n and toks[j].text == '{':
                name = rsfn._ctx_name(toks, i, j)
                if name == ctx:
                    return toks[j].end
                i = j + 1
                continue
        i += 1
    return None


def _name_ret(toks, f, add_ins, add_del, ret_name, res, fkey):
    """R3: `-> T` becomes `-> (r: T)`."""
    a = f.ret_arrow
    tstart = toks[a + 1].start
    # the return type ends before `where` or the body/`;`
    end_idx = f.where_idx if (f.where_idx is not None and f.where_idx > a) else f.sig_end
    tend = toks[end_idx - 1].end
    add_ins(tstart, '(%s: ' % ret_name, 'R3')
    add_ins(tend, ')', 'R3')
    res['rewrites'].append({'rule': 'R3', 'file': fkey, 'line': toks[a].line, 'fn': f.name})


def _fix_params(toks, f, add_ins, add_del, res, fkey):
    """R1: parameter pattern `_: T` -> `_unusedN: T` (Verus needs identifier patterns)."""
    k = 0
    depth = 0
    for i in range(f.params_open + 1, f.params_close):
        t = toks[i]
        if t.text in ('(', '[', '<'):
            depth += 1
        elif t.text in (')', ']', '>'):
            depth -= 1
        if depth == 0 and t.kind == 'id' and t.text == '_' and toks[i + 1].text == ':' \
                and toks[i - 1].text in ('(', ','):
            k += 1
            add_del(t.start, t.end, 'R1')
            add_ins(t.end, '_unused%d' % k, 'R1')
            res['rewrites'].append({'rule': 'R1', 'file': fkey, 'line': t.line, 'fn': f.name})


def _rewrite_or_guard(toks, pairs, f, src, add_ins, add_del, res, fkey):
    """R2: match arm `A | B if g => e` -> `A if g => e, B if g => e` (same order, adjacent)."""
    i = f.sig_end + 1
    end = f.body_close
    while i < end:
        t = toks[i]
        if t.kind == 'id' and t.text == 'match':
            # find the match block
            j = i + 1
            while toks[j].text != '{':
                if toks[j].text in ('(', '['):
                    j = pairs[j]
                j += 1
            close = pairs[j]
            # iterate arms at depth 1
            k = j + 1
            while k < close:
                arm_start = k
                # pattern up to `=>` at depth 0
                p = k
                bars = []
                if_idx = None
                while not (toks[p].text == '=>'):
                    if toks[p].text in ('(', '[', '{'):
                        p = pairs[p]
                    elif toks[p].text == '|' and if_idx is None:
                        bars.append(p)
                    elif toks[p].kind == 'id' and toks[p].text == 'if' and if_idx is None:
                        if_idx = p
                    p += 1
                arrow = p
                # arm body
                b = arrow + 1
                if toks[b].text == '{':
                    body_end = pairs[b]
                    nxt = body_end + 1
                    if nxt < close and toks[nxt].text == ',':
                        nxt += 1
                    body_txt_end = toks[body_end].end
                else:
                    q = b
                    while q < close and toks[q].text != ',':
                        if toks[q].text in ('(', '[', '{'):
                            q = pairs[q]
                        q += 1
                    body_txt_end = toks[q - 1].end
                    nxt = q + 1 if q < close else q
                if bars and if_idx is not None:
                    # only top-level alternatives of simple (literal / path) patterns
                    guard_and_body = src[toks[if_idx].start:body_txt_end]
                    for bar in bars:
                        add_del(toks[bar].start, toks[bar].end, 'R2')
                        add_ins(toks[bar].start, ' ' + guard_and_body + ', ', 'R2')
                    res['rewrites'].append({'rule': 'R2', 'file': fkey, 'line': toks[arm_start].line, 'fn': f.name})
                k = nxt
            # nested matches inside arm bodies are reached by the outer scan
        i += 1


def add_canary(sig: str) -> str:
    """Append `false` to the ensures section (vacuity canary: this MUST fail to verify)."""
    m = re.search(r'(?m)^(\s*)ensures\b', sig)
    if m:
        return sig[:m.end()] + ' false, ' + sig[m.end():]
    m = re.search(r'(?m)^(\s*)decreases\b', sig)
    if m:
        return sig[:m.start()] + '    ensures false,\n' + sig[m.start():]
    return sig + '\n    ensures false,\n'


def generate(repo: str, mods: List[ModSpec], sidecar_paths: List[str], prelude_paths: List[str],
             features: List[str], top_extra: str = '', canary: bool = False) -> GenResult:
    sc = parse_sidecar(sidecar_paths)
    sc.canary = canary
    em = Emitter()
    res = {'under_contract': [], 'external_body': [], 'rewrites': [], 'dropped': [], 'lost_anchors': [],
           'dropped_loops': [], 'loop_heads': {}, 'uncontracted_calls': {}}
    fpp = os.path.join(os.path.dirname(os.path.dirname(os.path.abspath(__file__))), 'contracts', 'loop_fingerprints.json')
    sc.fingerprints = json.load(open(fpp)).get('loops', {}) if os.path.exists(fpp) else {}
    head = ''
    for ft in features:
        head += '#![feature(%s)]\n' % ft
    head += ('#![allow(unused_imports, unused_variables, unused_mut, dead_code, unused_macros, unreachable_code, '
             'unused_parens, unused_braces, unused_assignments, non_snake_case, unused_attributes)]\n')
    head += 'use vstd::prelude::*;\n'
    head += 'macro_rules! debug_print { ($($arg:tt)*) => {{}}; }\n'
    head += 'verus! {\n'
    em.raw(head)
    for p in prelude_paths:
        em.ins('\n' + open(p).read() + '\n', 'prelude:%s' % os.path.basename(p))
    if top_extra:
        em.raw(top_extra)
    for ins in sc.insertions:
        if ins.file == 'top':
            em.ins('\n' + ins.text + '\n', ins.cid)

    def emit_mod(m: ModSpec, depth):
        if m.name:
            em.raw('\npub mod %s {\nuse vstd::prelude::*;\n%s\n' % (m.name, m.preamble))
        gen_file(em, repo, m, sc, res)
        for ch in m.children:
            emit_mod(ch, depth + 1)
        if m.name:
            em.raw('\n} // mod %s\n' % m.name)

    for m in mods:
        emit_mod(m, 0)
    em.raw('\n} // verus!\nfn main() {}\n')
    text, linemap = em.finish()
    res['contracts'] = {c.label: {'props': c.props, 'mode': c.mode, 'file': c.file, 'sig': c.sig,
                                  'loops': c.loops, 'src': os.path.basename(c.src), 'line': c.line,
                                  'proofs': [p.text for p in c.proofs]}
                        for c in sc.contracts.values()}
    return GenResult(contracts=res['contracts'], text=text, linemap=linemap, under_contract=res['under_contract'],
                     external_body=res['external_body'], rewrites=res['rewrites'], dropped=res['dropped'],
                     clause_ids={}, lost_anchors=res['lost_anchors'], dropped_loops=res['dropped_loops'],
                     loop_heads=res['loop_heads'], uncontracted_calls=res['uncontracted_calls'])
