"""Kani engine: runs the harness groups registered for a property and turns results into the
same failure records vf/check.py uses.  Bounded harnesses are labelled bounded in the coverage."""
import hashlib
import json
import os
import re
import subprocess
import sys

HERE = os.path.dirname(os.path.abspath(__file__))
ROOT = os.path.dirname(HERE)
sys.path.insert(0, HERE)
import runkani  # noqa: E402

# property -> list of groups; a group = one scratch crate build + a set of harnesses
# harness entry: name -> {obl: obligation id, kind: 'complete'|'bounded', bound: str, what: str, tier: 'quick'|'thorough'}
GROUPS = {
    'C18': [{
        'crate': 'saphyr', 'appends': {'encoding.rs': 'encoding_harness.rs'},
        'harnesses': {
            'c18_decode_loop_terminates': {
                'obl': 'decode_loop.terminates-and-no-panic', 'kind': 'bounded',
                'bound': 'input length <= 1 byte, <= 16 loop iterations (unwinding assertion), all 4 trap modes (+ a breaking callback), every decoder behaviour allowed by the assumed contract',
                'what': 'decode_loop returns within the unwinding bound and no slice index / arithmetic check fails', 'tier': 'quick'},
            'c18_detect_utf16': {
                'obl': 'detect_utf16_endianness.rule', 'kind': 'complete',
                'bound': 'loop-free; all values of the first two bytes, lengths 0..3 (the function only reads len > 1, b[0], b[1])',
                'what': 'BOM-less detection == rule of the statement (00 xx -> UTF-16BE, xx 00 -> UTF-16LE, else UTF-8)', 'tier': 'quick'},
        },
    }],
}

ALPHA = 'all byte strings of exactly that length over the 38-symbol alphabet of the property (digits, signs, ., e/E, x, o, hex letters, _, ~, the letters of null/true/false/inf/nan in both cases); f64::from_str replaced by a stub of its documented grammar (value of decimal floats trusted to std)'
GROUPS['C08'] = [{
    'crate': 'saphyr', 'appends': {'scalar.rs': 'scalar_harness.rs'}, 'timeout': 7000, 'jobs_thorough': 2,
    'harnesses': {
        'c08_untagged_len1': {'obl': 'parse_from_cow.core-schema.len1', 'kind': 'bounded', 'bound': 'length 1; ' + ALPHA, 'what': 'untagged plain scalar: typed null/bool/int/float only for core-schema literals with the denoted value, JSON literals / 64-bit ints / floats recognised, else identical string', 'tier': 'quick'},
        'c08_untagged_len2': {'obl': 'parse_from_cow.core-schema.len2', 'kind': 'bounded', 'bound': 'length 2; ' + ALPHA, 'what': 'same, length 2', 'tier': 'quick'},
        'c08_untagged_len3': {'obl': 'parse_from_cow.core-schema.len3', 'kind': 'bounded', 'bound': 'length 3; ' + ALPHA, 'what': 'same, length 3', 'tier': 'quick'},
        'c08_untagged_len4': {'obl': 'parse_from_cow.core-schema.len4', 'kind': 'bounded', 'bound': 'length 4; ' + ALPHA, 'what': 'same, length 4', 'tier': 'thorough'},
        'c08_untagged_len5': {'obl': 'parse_from_cow.core-schema.len5', 'kind': 'bounded', 'bound': 'length 5; ' + ALPHA, 'what': 'same, length 5', 'tier': 'thorough'},
        'c08_tagged_len2': {'obl': 'parse_from_cow_and_metadata.tagged.len2', 'kind': 'bounded', 'bound': 'length 2, tags !!int !!float !!bool !!null !!str and a foreign tag; ' + ALPHA, 'what': 'tagged plain scalar: exactly the type of the tag agreeing with the untagged reading, or None; decimal numbers, true/false, null/~ accepted under their own tag; !!str / foreign leave the string', 'tier': 'quick'},
        'c08_tagged_len1': {'obl': 'parse_from_cow_and_metadata.tagged.len1', 'kind': 'bounded', 'bound': 'length 1; ' + ALPHA, 'what': 'same, length 1', 'tier': 'thorough'},
        'c08_tagged_len3': {'obl': 'parse_from_cow_and_metadata.tagged.len3', 'kind': 'bounded', 'bound': 'length 3; ' + ALPHA, 'what': 'same, length 3', 'tier': 'thorough'},
        'c08_tagged_len4': {'obl': 'parse_from_cow_and_metadata.tagged.len4', 'kind': 'bounded', 'bound': 'length 4; ' + ALPHA, 'what': 'same, length 4', 'tier': 'thorough'},
        'c08_nonplain_and_owned': {'obl': 'parse_from_cow_and_metadata.nonplain-and-owned', 'kind': 'bounded', 'bound': 'length 3, 4 non-plain styles x 7 tag choices; ' + ALPHA, 'what': 'quoted/block scalars stay strings with identical content; ScalarOwned resolves like Scalar', 'tier': 'thorough'},
    },
}]


SHAPES = [('null', 'Null'), ('bool', 'Boolean(any bool)'), ('int', 'Integer(any i64)'), ('alias', 'Alias(any usize)'), ('bad', 'BadValue')]
_c19 = {}
for sh, desc in SHAPES:
    _c19['c19_keeps_resolved_' + sh] = {'obl': 'parse_representation.keeps-resolved.' + sh, 'kind': 'bounded',
        'bound': 'a single already-resolved leaf node of shape %s (full value range); unwinding bound 12 with unwinding assertions' % desc,
        'what': 'Yaml::parse_representation returns true and leaves the node exactly as it was', 'tier': 'quick'}
    _c19['c19_recursive_keeps_' + sh] = {'obl': 'parse_representation_recursive.keeps-resolved-leaf.' + sh, 'kind': 'bounded',
        'bound': 'a single already-resolved leaf node of shape %s; containers are out of reach of CBMC (see DESIGN 9.2)' % desc,
        'what': 'Yaml::parse_representation_recursive returns true and leaves the leaf exactly as it was', 'tier': 'quick'}
    if sh != 'null':
        for ty in ('yaml', 'marked', 'owned'):
            _c19['c19_from_bare_%s_%s' % (ty, sh)] = {'obl': 'from_bare_yaml.%s.%s' % (ty, sh), 'kind': 'bounded',
                'bound': 'a single leaf node of shape %s' % desc,
                'what': '%s::from_bare_yaml keeps the data of the leaf' % {'yaml': 'Yaml', 'marked': 'MarkedYaml', 'owned': 'YamlOwned'}[ty], 'tier': 'quick'}
for nm, txt, st in [('int_plain', '1', 'Plain'), ('null_plain', '~', 'Plain'), ('bool_plain', 'true', 'Plain'),
                    ('int_dq', '1', 'DoubleQuoted'), ('int_sq', '1', 'SingleQuoted'), ('int_literal', '1', 'Literal'),
                    ('null_dq', '~', 'DoubleQuoted'), ('bool_folded', 'true', 'Folded')]:
    _c19['c19_deferred_' + nm] = {'obl': 'parse_representation.deferred-eq-eager.' + nm, 'kind': 'bounded',
        'bound': 'the concrete untagged Representation node ("%s", %s) - symbolic text did not finish; f64::from_str (never reached for this text) stubbed out' % (txt, st),
        'what': 'resolving the deferred node gives what eager loading gives: a type-like text is typed in plain style and stays a string in a quoted or block style', 'tier': 'quick'}
_c19['c19_scalar_owned_round_trip'] = {'obl': 'scalar.into_owned.as_scalar', 'kind': 'bounded',
    'bound': 'Null, Boolean(any), Integer(any i64), String("ab"); floats excluded (NaN != NaN)',
    'what': 'Scalar -> ScalarOwned (into_owned) -> Scalar (as_scalar) gives back the same scalar', 'tier': 'quick'}
_c19['c19_marked_eq_hash_ignore_span'] = {'obl': 'marked.eq-hash-ignore-span', 'kind': 'bounded',
    'bound': 'two marked integer nodes with the same (symbolic) value and arbitrary symbolic spans; a recording Hasher',
    'what': 'MarkedYaml == and Hash see the data only; MarkedYamlOwned with_span does not change equality', 'tier': 'quick'}
GROUPS['C19'] = [{'crate': 'saphyr', 'appends': {'yaml.rs': 'yaml_harness.rs'}, 'timeout': 2400, 'harness_timeout': 600, 'harnesses': _c19}]

ALPHA9 = 'all byte strings of exactly that length over the 34-symbol alphabet of the property (indicators - ? : , [ { # & * ! | > \' " % @, blank, tab, line feed, digits 0 1 7, . + e x o ~ and the letters a n u l y); f64::from_str replaced by a stub of its documented grammar'
_c09 = {
    'c09_need_quotes_len1': {'obl': 'need_quotes.plain-is-safe.len1', 'kind': 'bounded', 'bound': 'length 1; ' + ALPHA9, 'tier': 'quick',
        'what': 'a string that need_quotes lets through unquoted is not a core-schema null/bool/int/float literal (it reloads as the same string) and is a legal one-line plain scalar (YAML 1.2 section 7.3.3)'},
    'c09_need_quotes_len2': {'obl': 'need_quotes.plain-is-safe.len2', 'kind': 'bounded', 'bound': 'length 2; ' + ALPHA9, 'tier': 'quick', 'what': 'same, length 2'},
    'c09_need_quotes_len3': {'obl': 'need_quotes.plain-is-safe.len3', 'kind': 'bounded', 'bound': 'length 3; ' + ALPHA9, 'tier': 'quick', 'what': 'same, length 3'},
    'c09_need_quotes_len4': {'obl': 'need_quotes.plain-is-safe.len4', 'kind': 'bounded', 'bound': 'length 4; ' + ALPHA9, 'tier': 'thorough', 'what': 'same, length 4'},
    'c09_escape_len1': {'obl': 'escape_str.round-trip.len1', 'kind': 'bounded', 'bound': 'every ASCII string of length 1', 'tier': 'quick',
        'what': 'escape_str output is a single-line double-quoted scalar that decodes (YAML 1.2 sections 5.7 / 7.3.1) to the original bytes'},
    'c09_escape_len2': {'obl': 'escape_str.round-trip.len2', 'kind': 'bounded', 'bound': 'every ASCII string of length 2', 'tier': 'quick', 'what': 'same, length 2'},
    'c09_escape_len3': {'obl': 'escape_str.round-trip.len3', 'kind': 'bounded', 'bound': 'every ASCII string of length 3', 'tier': 'quick', 'what': 'same, length 3'},
}
for w, txt in [('null', 'null'), ('null_cap', 'Null'), ('true', 'true'), ('false_up', 'FALSE'), ('octal', '0o17'), ('hex', '0x1F'),
               ('plus_int', '+12'), ('exp', '1e3'), ('inf', '.inf'), ('plus_inf', '+.inf'), ('minus_inf', '-.INF'), ('nan', '.NaN'), ('tilde', '~')]:
    _c09['c09_word_' + w] = {'obl': 'need_quotes.type-like-word.' + w, 'kind': 'bounded', 'bound': 'the concrete string "%s"' % txt, 'tier': 'quick',
                             'what': 'the type-like word "%s" is quoted (or, if not, is no core-schema literal)' % txt}
GROUPS['C09'] = [{'crate': 'saphyr', 'appends': {'emitter.rs': 'emitter_harness.rs'}, 'timeout': 3000, 'harness_timeout': 1500, 'harnesses': _c09}]

_c10 = {
    'c10_str_predicates_len4': {'obl': 'StrInput.byte-predicates==defaults.len4', 'kind': 'bounded', 'tier': 'quick',
        'bound': 'every valid UTF-8 string of at most 4 bytes',
        'what': 'the byte-indexed StrInput overrides next_is_blank / break / breakz / z / blank_or_break / blank_or_breakz / flow / digit / alpha, next_is_document_start / end / indicator and next_can_be_plain_scalar (both flow settings) give the same answer as the provided (default) trait methods on the same input'},
    'c10_str_predicates_len6': {'obl': 'StrInput.byte-predicates==defaults.len6', 'kind': 'bounded', 'tier': 'thorough',
        'bound': 'every valid UTF-8 string of at most 6 bytes', 'what': 'same, up to 6 bytes'},
    'c10_str_blank_len3': {'obl': 'StrInput.skip_while_blank==default.len3', 'kind': 'bounded', 'tier': 'quick',
        'bound': 'every valid UTF-8 string of at most 3 bytes over {space, tab, #, LF, CR, a, a two-byte character}',
        'what': 'StrInput::skip_while_blank returns the same count and leaves the same remaining input as the default method'},
    'c10_str_blank_len4': {'obl': 'StrInput.skip_while_blank==default.len4', 'kind': 'bounded', 'tier': 'thorough',
        'bound': 'same alphabet, at most 4 bytes', 'what': 'same, up to 4 bytes'},
    'c10_str_ws_eol_comment1': {'obl': 'StrInput.skip_ws_to_eol==default.comment', 'kind': 'bounded', 'tier': 'quick',
        'bound': 'the inputs " #x" for x in {space, #, LF, CR, a, NUL} (SkipTabs::Yes): the comment path with every kind of comment end',
        'what': 'StrInput::skip_ws_to_eol returns the same count and verdict and leaves the same remaining input as the default method'},
    'c10_str_ws_eol_len2': {'obl': 'StrInput.skip_ws_to_eol==default.len2', 'kind': 'bounded', 'tier': 'thorough',
        'bound': 'every valid UTF-8 string of at most 2 bytes over the white-space alphabet, both SkipTabs settings', 'what': 'same, all strings up to 2 bytes (about 16 minutes)'},
}
_c10['c10_str_non_breakz_len4'] = {'obl': 'StrInput.skip_while_non_breakz==default.len4', 'kind': 'bounded', 'tier': 'quick',
    'bound': 'every valid UTF-8 string of at most 4 bytes over {space, tab, #, LF, CR, a, NUL, a two-byte character}',
    'what': 'StrInput::skip_while_non_breakz returns the same count (in characters) and leaves the same remaining input as the default method'}
GROUPS['C10'] = [{'crate': 'saphyr-parser', 'appends': {'input/str.rs': 'strinput_harness.rs'}, 'timeout': 4000, 'harness_timeout': 1500, 'harnesses': _c10}]

CACHE = os.environ.get('VERIF_CACHE') or os.path.join(ROOT, '.cache')


def _kani_version():
    try:
        return subprocess.run(['cargo', 'kani', '--version'], capture_output=True, text=True, timeout=60).stdout.strip()
    except Exception:
        return 'unknown'


def _tree_hash(paths):
    h = hashlib.sha256()
    for p in sorted(paths):
        if os.path.isdir(p):
            for dp, _, fs in sorted(os.walk(p)):
                if '/target' in dp:
                    continue
                for f in sorted(fs):
                    fp = os.path.join(dp, f)
                    h.update(fp.encode())
                    h.update(open(fp, 'rb').read())
        else:
            h.update(open(p, 'rb').read())
    return h.hexdigest()


def run(pid, tier, seed, scratch, repo):
    failures, undecided = [], []
    cov = {'obligations': 0, 'harnesses': {}, 'bounded': [], 'complete': [], 'cmds': [], 'wall_s': 0.0}
    for gi, g in enumerate(GROUPS.get(pid, [])):
        hs = {n: h for n, h in g['harnesses'].items() if tier == 'thorough' or h.get('tier', 'quick') == 'quick'}
        if not hs:
            continue
        key = hashlib.sha256(json.dumps([
            _tree_hash([os.path.join(repo, runkani.CRATES[g['crate']]['src']), os.path.join(repo, 'parser/src'),
                        os.path.join(repo, 'Cargo.lock')]),
            _tree_hash([os.path.join(runkani.KDIR, f) for f in g['appends'].values()]),
            sorted(hs), _kani_version(), open(os.path.join(HERE, 'runkani.py')).read()]).encode()).hexdigest()
        cp = os.path.join(CACHE, 'kani-' + key + '.json')
        r = None
        if os.path.exists(cp):
            try:
                r = json.load(open(cp))
                r['cached'] = True
            except Exception:
                r = None
        if r is None:
            cdir = runkani.build(g['crate'], g['appends'], repo, scratch)
            probs = runkani.fidelity(g['crate'], g['appends'], repo, cdir)
            if probs:
                undecided.append('kani fidelity mismatch (framework error): %s' % probs[0])
                continue
            # some CBMC runs need 25+ GB (C08 at length 5): a group may cap how many run side by side
            r = runkani.run(cdir, sorted(hs), jobs=min(g.get('jobs_' + tier, g.get('jobs', 8)), len(hs)), timeout=g.get('timeout', 3000),
                            harness_timeout=g.get('harness_timeout'))
            r['cached'] = False
            # only decided runs are worth keeping: a harness cut off by a time-out or killed for lack of memory may
            # well finish next time
            if not r['timed_out'] and r['harnesses'] and all(h.get('status') in ('SUCCESSFUL', 'FAILED') for h in r['harnesses'].values()):
                os.makedirs(CACHE, exist_ok=True)
                json.dump(r, open(cp, 'w'))
        cov['cmds'].append(r['cmd'])
        cov['wall_s'] += r['wall_s']
        if r['timed_out']:
            undecided.append('cargo kani timed out for group %d of %s' % (gi, pid))
            continue
        for n, h in hs.items():
            cov['obligations'] += 1
            hr = r['harnesses'].get(n)
            if hr is None:
                undecided.append('kani produced no result for harness %s: %s' % (n, r['tail'][-600:].replace('\n', ' ')))
                continue
            entry = {'status': hr['status'], 'time_s': hr['time_s'], 'cbmc_checks': hr['n_checks'], 'kind': h['kind'],
                     'bound': h['bound'], 'what': h['what'], 'from_cache': r.get('cached', False)}
            cov['harnesses'][n] = entry
            (cov['bounded'] if h['kind'] == 'bounded' else cov['complete']).append(n)
            if hr['status'] == 'SUCCESSFUL':
                continue
            if hr['status'] == 'FAILED':
                failures.append({'kind': 'kani', 'message': 'Kani harness %s FAILED: %s' % (n, '; '.join(hr['failed_checks'][:6])),
                                 'rendered': hr['log'], 'fn': n, 'clause': h['what'], 'props_override': [pid],
                                 'where': None, 'id': 'kani.' + h['obl'], 'repo_loc': None, 'harness': n,
                                 'group': gi})
            else:
                undecided.append('kani harness %s ended with status %s' % (n, hr['status']))
    return failures, undecided, cov


def playback(pid, failure, scratch, repo):
    """Re-run one failed harness with --concrete-playback=print and return the printed unit test (the
    concrete counterexample values), or None."""
    for g in GROUPS.get(pid, []):
        if failure.get('harness') in g['harnesses']:
            cdir = runkani.build(g['crate'], g['appends'], repo, scratch)
            r = runkani.run(cdir, [failure['harness']], jobs=1, timeout=1800,
                            extra=['-Z', 'concrete-playback', '--concrete-playback', 'print'])
            m = re.search(r'Concrete playback unit test.*?```(.*?)```', r['tail'] + ''.join(
                h['log'] for h in r['harnesses'].values()), re.S)
            if m:
                return m.group(1)
            m = re.search(r'(#\[test\]\s*fn kani_concrete_playback.*?\n\})', r['tail'], re.S)
            if m:
                return m.group(1)
    return None
