"""Build scratch copies of the real crates with harness modules appended, run cargo kani.

The scratch crate is a MECHANICAL copy of /repo/<crate>/src (every file byte-identical) plus, for the
files named in the unit, a marked `#[cfg(kani)] mod verif_<x> { ... }` appended at the end, so that
harnesses can reach private functions.  Nothing of the crate is re-typed.
"""
import json
import os
import re
import shutil
import subprocess
import time

HERE = os.path.dirname(os.path.abspath(__file__))
ROOT = os.path.dirname(HERE)
KDIR = os.path.join(ROOT, 'kani')

CRATES = {
    'saphyr': {
        'src': 'saphyr/src',
        'cargo': '''[package]
name = "saphyr"
version = "0.0.4"
edition = "2021"
[features]
default = [ "encoding" ]
encoding = [ "dep:encoding_rs" ]
[dependencies]
arraydeque = "0.5.1"
encoding_rs = { version = "0.8.33", optional = true }
hashlink = "0.10"
ordered-float = { version = "5.0", default-features = false }
saphyr-parser = { path = "%(repo)s/parser" }
[workspace]
[lints.rust]
unexpected_cfgs = { level = "allow", check-cfg = ['cfg(kani)'] }
''',
    },
    'saphyr-parser': {
        'src': 'parser/src',
        'cargo': '''[package]
name = "saphyr-parser"
version = "0.0.4"
edition = "2021"
[features]
debug_prints = []
[dependencies]
arraydeque = "0.5.1"
[workspace]
[lints.rust]
unexpected_cfgs = { level = "allow", check-cfg = ['cfg(kani)'] }
''',
    },
}

MARK_OPEN = '\n// <<<VERIF-APPENDED (harness module, not part of /repo)\n'
MARK_CLOSE = '\n// VERIF-APPENDED>>>\n'


def build(crate, appends, repo, scratch):
    """appends: {relative file under src: harness file under /verif/kani}. Returns crate dir."""
    cdef = CRATES[crate]
    d = os.path.join(scratch, 'k_' + crate.replace('-', '_'))
    if os.path.exists(d):
        shutil.rmtree(d)
    shutil.copytree(os.path.join(repo, cdef['src']), os.path.join(d, 'src'))
    for rel, hfile in appends.items():
        p = os.path.join(d, 'src', rel)
        orig = open(p).read()
        with open(p, 'w') as fh:
            fh.write(orig + MARK_OPEN + open(os.path.join(KDIR, hfile)).read() + MARK_CLOSE)
    open(os.path.join(d, 'Cargo.toml'), 'w').write(cdef['cargo'] % {'repo': repo})
    os.makedirs(os.path.join(d, '.cargo'), exist_ok=True)
    open(os.path.join(d, '.cargo', 'config.toml'), 'w').write('[net]\noffline = true\n')
    shutil.copy(os.path.join(repo, 'Cargo.lock'), os.path.join(d, 'Cargo.lock'))
    return d


def fidelity(crate, appends, repo, cdir):
    """Every copied file minus the marked appendix must equal the /repo file byte for byte."""
    problems = []
    src = os.path.join(repo, CRATES[crate]['src'])
    for dirpath, _, files in os.walk(src):
        for f in files:
            rp = os.path.join(dirpath, f)
            rel = os.path.relpath(rp, src)
            cp = os.path.join(cdir, 'src', rel)
            a = open(rp).read()
            b = open(cp).read() if os.path.exists(cp) else None
            if b is None:
                problems.append('missing ' + rel)
                continue
            if rel in appends:
                i = b.find(MARK_OPEN)
                b = b[:i] if i >= 0 else b
            if a != b:
                problems.append('copy of %s differs from /repo' % rel)
    return problems


RESULT_RE = re.compile(r'^Checking harness ([\w:]+)\.\.\.', re.M)


def run(cdir, harnesses, jobs=8, timeout=3600, extra=None):
    """Runs cargo kani for the given harness names; returns dict name -> {status, time, checks, failed:[...], log}."""
    cmd = ['cargo', 'kani', '-Z', 'function-contracts', '-Z', 'stubbing', '-Z', 'unstable-options',
           '--output-format', 'terse', '-j', str(jobs)]
    for h in harnesses:
        cmd += ['--harness', h]
    if extra:
        cmd += extra
    env = dict(os.environ, CARGO_NET_OFFLINE='true')
    t0 = time.time()
    try:
        pr = subprocess.run(cmd, cwd=cdir, capture_output=True, text=True, timeout=timeout, env=env)
        out = pr.stdout + '\n' + pr.stderr
        rc = pr.returncode
        timed_out = False
    except subprocess.TimeoutExpired as e:
        out = (e.stdout or b'').decode(errors='replace') if isinstance(e.stdout, bytes) else (e.stdout or '')
        out += (e.stderr or b'').decode(errors='replace') if isinstance(e.stderr, bytes) else (e.stderr or '')
        rc = -9
        timed_out = True
    wall = time.time() - t0
    res = {}
    # split per harness
    parts = re.split(r'(?m)^Checking harness ', out)
    for part in parts[1:]:
        name = part.split('...', 1)[0].strip()
        short = name.split('::')[-1]
        status = 'unknown'
        m = re.search(r'VERIFICATION:-\s*(\w+)', part)
        if m:
            status = m.group(1)
        failed = re.findall(r'(?m)^Failed Checks: (.*)$', part)
        tm = re.search(r'Verification Time: ([\d.]+)s', part)
        checks = re.search(r'\*\* (\d+) of (\d+) failed', part)
        res[short] = {'full_name': name, 'status': status, 'failed_checks': failed,
                      'time_s': float(tm.group(1)) if tm else None,
                      'n_checks': int(checks.group(2)) if checks else None,
                      'log': part[-3000:]}
    return {'cmd': ' '.join(cmd), 'rc': rc, 'wall_s': wall, 'timed_out': timed_out, 'harnesses': res,
            'tail': out[-4000:]}
