"""Build scratch copies of the real crates with harness modules appended, run cargo kani.

The scratch crate is a MECHANICAL copy of /repo/<crate>/src (every file byte-identical) plus, for the
files named in the unit, a marked `#[cfg(kani)] mod verif_<x> { ... }` appended at the end, so that
harnesses can reach private functions.  Nothing of the crate is re-typed.
"""
import json
import os
import re
import shutil
import signal
import subprocess
import time

HERE = os.path.dirname(os.path.abspath(__file__))
ROOT = os.path.dirname(HERE)
KDIR = os.path.join(ROOT, 'kani')

CRATES = {
    'saphyr': {
        'src': 'saphyr/src',
        'cargo': '''[package]
name = "saphyr"
version = "0.0.4"
edition = "2021"
[features]
default = [ "encoding" ]
encoding = [ "dep:encoding_rs" ]
[dependencies]
arraydeque = "0.5.1"
encoding_rs = { version = "0.8.33", optional = true }
hashlink = "0.10"
ordered-float = { version = "5.0", default-features = false }
saphyr-parser = { path = "%(repo)s/parser" }
[workspace]
[lints.rust]
unexpected_cfgs = { level = "allow", check-cfg = ['cfg(kani)'] }
''',
    },
    'saphyr-parser': {
        'src': 'parser/src',
        'cargo': '''[package]
name = "saphyr-parser"
version = "0.0.4"
edition = "2021"
[features]
debug_prints = []
[dependencies]
arraydeque = "0.5.1"
[workspace]
[lints.rust]
unexpected_cfgs = { level = "allow", check-cfg = ['cfg(kani)'] }
''',
    },
}

MARK_OPEN = '\n// <<<VERIF-APPENDED (harness module, not part of /repo)\n'
MARK_CLOSE = '\n// VERIF-APPENDED>>>\n'


def build(crate, appends, repo, scratch):
    """appends: {relative file under src: harness file under /verif/kani}. Returns crate dir."""
    cdef = CRATES[crate]
    d = os.path.join(scratch, 'k_' + crate.replace('-', '_'))
    if os.path.exists(d):
        shutil.rmtree(d)
    shutil.copytree(os.path.join(repo, cdef['src']), os.path.join(d, 'src'))
    for rel, hfile in appends.items():
        p = os.path.join(d, 'src', rel)
        orig = open(p).read()
        with open(p, 'w') as fh:
            fh.write(orig + MARK_OPEN + open(os.path.join(KDIR, hfile)).read() + MARK_CLOSE)
    open(os.path.join(d, 'Cargo.toml'), 'w').write(cdef['cargo'] % {'repo': repo})
    os.makedirs(os.path.join(d, '.cargo'), exist_ok=True)
    open(os.path.join(d, '.cargo', 'config.toml'), 'w').write('[net]\noffline = true\n')
    shutil.copy(os.path.join(repo, 'Cargo.lock'), os.path.join(d, 'Cargo.lock'))
    return d


def fidelity(crate, appends, repo, cdir):
    """Every copied file minus the marked appendix must equal the /repo file byte for byte."""
    problems = []
    src = os.path.join(repo, CRATES[crate]['src'])
    for dirpath, _, files in os.walk(src):
        for f in files:
            rp = os.path.join(dirpath, f)
            rel = os.path.relpath(rp, src)
            cp = os.path.join(cdir, 'src', rel)
            a = open(rp).read()
            b = open(cp).read() if os.path.exists(cp) else None
            if b is None:
                problems.append('missing ' + rel)
                continue
            if rel in appends:
                i = b.find(MARK_OPEN)
                b = b[:i] if i >= 0 else b
            if a != b:
                problems.append('copy of %s differs from /repo' % rel)
    return problems


RESULT_RE = re.compile(r'^Checking harness ([\w:]+)\.\.\.', re.M)


def run(cdir, harnesses, jobs=8, timeout=3600, extra=None, harness_timeout=None):
    """Runs cargo kani for the given harness names; returns dict name -> {status, time, checks, failed:[...], log}."""
    jpath = os.path.join(cdir, 'kani_results.json')
    if os.path.exists(jpath):
        os.remove(jpath)
    cmd = ['cargo', 'kani', '-Z', 'function-contracts', '-Z', 'stubbing', '-Z', 'unstable-options',
           '--output-format', 'terse', '--export-json', jpath, '-j', str(jobs)]
    for h in harnesses:
        cmd += ['--harness', h]
    if harness_timeout:
        cmd += ['--harness-timeout', '%ds' % int(harness_timeout)]
    if extra:
        cmd += extra
    env = dict(os.environ, CARGO_NET_OFFLINE='true')
    t0 = time.time()
    # own process group, killed as a whole on timeout: cargo-kani's cbmc children otherwise survive the
    # timeout and keep tens of GB each
    pr = subprocess.Popen(cmd, cwd=cdir, stdout=subprocess.PIPE, stderr=subprocess.PIPE, text=True, env=env,
                          start_new_session=True)
    try:
        so, se = pr.communicate(timeout=timeout)
        out = so + '\n' + se
        rc = pr.returncode
        timed_out = False
    except subprocess.TimeoutExpired:
        try:
            os.killpg(pr.pid, signal.SIGKILL)
        except Exception:
            pass
        try:
            so, se = pr.communicate(timeout=30)
        except Exception:
            so, se = '', ''
        out = (so or '') + '\n' + (se or '')
        rc = -9
        timed_out = True
    finally:
        try:
            os.killpg(pr.pid, signal.SIGKILL)
        except Exception:
            pass
    wall = time.time() - t0
    res = {}
    try:
        d = json.load(open(jpath))
    except Exception:
        d = None
    if d:
        for r in d.get('verification_results', {}).get('results', []):
            short = r['harness_id'].split('::')[-1]
            bad = [c for c in r.get('checks', []) if c.get('status') not in ('Success', 'Unreachable', 'Satisfied', 'Covered')]
            bad.sort(key=lambda c: 0 if c.get('status') in ('Failure', 'Failed') else 1)
            n_und = len([c for c in bad if c.get('status') not in ('Failure', 'Failed')])
            failed = ['%s [%s] %s:%s in %s' % (c.get('description'), c.get('status'), (c.get('location') or {}).get('file'),
                                               (c.get('location') or {}).get('line'), c.get('function'))
                      for c in bad if c.get('status') in ('Failure', 'Failed')]
            if n_und:
                failed.append('(+ %d checks undetermined because of the failures above)' % n_und)
            st = {'Success': 'SUCCESSFUL', 'Failure': 'FAILED', 'Failed': 'FAILED'}.get(r.get('status'), str(r.get('status')))
            if st == 'FAILED' and not r.get('checks'):
                st = 'TIMEOUT-OR-TOOL-ERROR'   # a harness that was cut off (--harness-timeout) reports no checks at all
            res[short] = {'full_name': r['harness_id'], 'status': st, 'failed_checks': failed[:20],
                          'time_s': (r.get('duration_ms') or 0) / 1000.0, 'n_checks': len(r.get('checks', [])),
                          'log': '\n'.join(failed[:40])}
        tools = d.get('tools', {})
    else:
        tools = {}
    out = re.sub(r'(?m)^Thread \d+: ?', '', out)
    return {'cmd': ' '.join(c for c in cmd if c != jpath).replace('--export-json ', ''), 'rc': rc, 'wall_s': wall,
            'timed_out': timed_out, 'harnesses': res, 'tail': out[-6000:], 'tools': tools}
