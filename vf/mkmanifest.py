#!/usr/bin/env python3
"""Regenerate MANIFEST.json from vf/props.py (claimed properties) and vf/na.py (not applicable)."""
import json, os, sys
HERE = os.path.dirname(os.path.abspath(__file__))
ROOT = os.path.dirname(HERE)
sys.path.insert(0, HERE)
import props, na

m = {
    'version': 1,
    'setup_cmd': 'true',
    'hooks': {
        'guard': 'saphyr_verif',
        'enable': 'none needed: contracts live in /verif/contracts and are spliced into a generated copy of the real sources on every run; /repo carries no hooks',
        'baseline_off_cmd': 'cd /repo && cargo test --workspace --no-fail-fast --offline',
        'source_commits': [],
        'add_only': True,
    },
    'engines': [
        {'name': 'verus-units', 'path': 'vf/check.py', 'serves_properties': sorted(p for p in props.PROPS if props.PROPS[p]['units']),
         'kind_free_text': 'contract-based deductive verification: sidecar contracts spliced into the real sources, discharged by Verus/z3 function by function'},
    ],
    'checks': [],
    'notes': 'See DESIGN.md. exit 0 = all obligations routed to the property discharged; exit 1 = VIOLATION; exit 2 = undecided (tool/spec problem), never an alarm.',
    'not_applicable': [{'property_id': k, 'reason': v} for k, v in sorted(na.NA.items()) if k not in props.PROPS],
}
for pid in sorted(props.PROPS):
    p = props.PROPS[pid]
    m['checks'].append({
        'property_id': pid,
        'quick_cmd': 'bin/check %s --tier quick' % pid,
        'thorough_cmd': 'bin/check %s --tier thorough' % pid,
        'evidence_file': 'evidence/%s.json' % pid,
        'replay_cmd_template': 'bin/check %s --replay {path}' % pid,
        'engine': 'verus-units',
        'level_claimed': {'category': p.get('level', 'proof'), 'text': p['claim'], 'design_ref': 'DESIGN.md section 4, ' + pid},
        'level_note': '; '.join(props.trusted_base(pid)),
        'technique': p.get('technique', 'contract-based deductive verification (Verus) of the real functions'),
    })
json.dump(m, open(os.path.join(ROOT, 'MANIFEST.json'), 'w'), indent=1)
print('MANIFEST.json: %d checks, %d not applicable' % (len(m['checks']), len(m['not_applicable'])))
