"""Minimal Rust lexer and item locator (stdlib only).

Good enough for the saphyr sources: handles line/nested block comments, string / raw string /
byte string literals, char literals vs lifetimes, numbers, identifiers and punctuation.  Tokens
carry byte offsets so that the generator can splice text without re-typing anything.
"""
import re
from dataclasses import dataclass, field
from typing import List, Optional

IDENT_START = re.compile(r'[A-Za-z_]')
IDENT = re.compile(r'[A-Za-z_][A-Za-z0-9_]*')
NUMBER = re.compile(r'[0-9][A-Za-z0-9_]*(\.[0-9][A-Za-z0-9_]*)?')

PUNCT3 = ('<<=', '>>=', '...', '..=')
PUNCT2 = ('::', '->', '=>', '==', '!=', '<=', '>=', '&&', '||', '+=', '-=', '*=', '/=', '%=', '^=',
          '&=', '|=', '<<', '>>', '..')


@dataclass
class Tok:
    kind: str       # id, num, str, char, life, punct, comment
    text: str
    start: int
    end: int
    line: int


class LexError(Exception):
    pass


def lex(src: str, keep_comments: bool = False) -> List[Tok]:
    toks: List[Tok] = []
    i = 0
    n = len(src)
    line = 1

    def push(kind, s, e):
        nonlocal line
        toks.append(Tok(kind, src[s:e], s, e, line))

    while i < n:
        c = src[i]
        if c == '\n':
            line += 1
            i += 1
            continue
        if c in ' \t\r':
            i += 1
            continue
        if src.startswith('//', i):
            j = src.find('\n', i)
            if j < 0:
                j = n
            if keep_comments:
                push('comment', i, j)
            i = j
            continue
        if src.startswith('/*', i):
            depth = 1
            j = i + 2
            while j < n and depth > 0:
                if src.startswith('/*', j):
                    depth += 1
                    j += 2
                elif src.startswith('*/', j):
                    depth -= 1
                    j += 2
                else:
                    j += 1
            if keep_comments:
                push('comment', i, j)
            line += src.count('\n', i, j)
            i = j
            continue
        # raw strings / byte strings
        m = re.match(r'(b|c)?r(#*)"', src[i:i + 40])
        if m:
            hashes = m.group(2)
            close = '"' + hashes
            j = src.find(close, i + m.end())
            if j < 0:
                raise LexError('unterminated raw string at line %d' % line)
            j += len(close)
            push('str', i, j)
            line += src.count('\n', i, j)
            i = j
            continue
        if c == '"' or (c in 'bc' and i + 1 < n and src[i + 1] == '"'):
            j = i + (2 if c in 'bc' else 1)
            while j < n and src[j] != '"':
                if src[j] == '\\':
                    j += 1
                j += 1
            j += 1
            push('str', i, j)
            line += src.count('\n', i, j)
            i = j
            continue
        if c == "'" or (c == 'b' and i + 1 < n and src[i + 1] == "'"):
            k = i + (1 if c == 'b' else 0)
            # char literal or lifetime?
            if k + 1 < n and src[k + 1] == '\\':
                j = k + 3
                while j < n and src[j] != "'":
                    j += 1
                j += 1
                push('char', i, j)
                i = j
                continue
            if k + 2 < n and src[k + 2] == "'":
                push('char', i, k + 3)
                i = k + 3
                continue
            # multi-byte char literal like '\u{..}' handled above; non-ascii single char:
            mm = IDENT.match(src, k + 1)
            if mm and c == "'":
                push('life', i, mm.end())
                i = mm.end()
                continue
            # fallback: single non-ident char literal e.g. '€'
            j = src.find("'", k + 1)
            push('char', i, j + 1)
            i = j + 1
            continue
        if IDENT_START.match(c):
            mm = IDENT.match(src, i)
            # raw identifiers r#foo
            push('id', i, mm.end())
            i = mm.end()
            continue
        if c.isdigit():
            mm = NUMBER.match(src, i)
            e = mm.end()
            # do not swallow range `0..n` / method call `1.max`
            txt = src[i:e]
            if '.' in txt:
                dot = txt.index('.')
                if not txt[dot + 1].isdigit():
                    e = i + dot
            push('num', i, e)
            i = e
            continue
        for p in PUNCT3:
            if src.startswith(p, i):
                push('punct', i, i + 3)
                i += 3
                break
        else:
            for p in PUNCT2:
                if src.startswith(p, i):
                    push('punct', i, i + 2)
                    i += 2
                    break
            else:
                push('punct', i, i + 1)
                i += 1
    return toks


OPEN = {'(': ')', '[': ']', '{': '}'}
CLOSE = {')', ']', '}'}


def match_brackets(toks: List[Tok]):
    """Return dict open_index -> close_index for (), [], {}."""
    stack = []
    pairs = {}
    for idx, t in enumerate(toks):
        if t.kind != 'punct':
            continue
        if t.text in OPEN:
            stack.append(idx)
        elif t.text in CLOSE:
            if not stack:
                raise LexError('unbalanced %s at line %d' % (t.text, t.line))
            o = stack.pop()
            if OPEN[toks[o].text] != t.text:
                raise LexError('mismatched bracket at line %d' % t.line)
            pairs[o] = idx
    if stack:
        raise LexError('unclosed bracket at line %d' % toks[stack[-1]].line)
    return pairs


@dataclass
class Loop:
    kw_idx: int          # token index of loop/while/for
    body_open: int       # token index of `{`
    body_close: int
    kind: str


@dataclass
class FnItem:
    name: str
    ctx: str                 # '' | 'impl X' | 'trait X' | 'impl Tr for X'
    mods: List[str]
    item_start: int          # token index of first token of the item (attrs excluded)
    attr_start: int          # token index of first attribute token (or item_start)
    fn_idx: int              # token index of `fn`
    sig_end: int             # token index of `{` (body open) or `;`
    body_close: Optional[int]
    has_body: bool
    ret_arrow: Optional[int]  # token index of top-level `->` in signature
    where_idx: Optional[int]
    params_open: int
    params_close: int
    loops: List[Loop] = field(default_factory=list)
    in_test: bool = False

    @property
    def key(self):
        return (self.ctx, self.name)


def _ctx_name(toks, start, end):
    """Summarise `impl<..> Tr<..> for Ty<..> where ..` into 'impl Tr for Ty' (generics dropped)."""
    out = []
    depth = 0
    i = start
    while i < end:
        t = toks[i]
        if t.kind == 'punct' and t.text == '<':
            depth += 1
        elif t.kind == 'punct' and t.text == '>':
            depth -= 1
        elif t.kind == 'punct' and t.text == '>>':
            depth -= 2
        elif depth == 0:
            if t.kind == 'id' and t.text == 'where':
                break
            if t.kind == 'id':
                out.append(t.text)
            elif t.kind == 'punct' and t.text == '::':
                out.append('::')
        i += 1
    s = ' '.join(out).replace(' :: ', '::')
    return s


def find_items(toks: List[Tok]):
    """Locate every fn item with its enclosing impl/trait/mod context."""
    pairs = match_brackets(toks)
    fns: List[FnItem] = []
    # context stack: list of (close_index, kind, name)
    ctx_stack = []
    i = 0
    n = len(toks)

    def cur_ctx():
        for close, kind, name in reversed(ctx_stack):
            if kind in ('impl', 'trait'):
                return name
        return ''

    def cur_mods():
        return [name for close, kind, name in ctx_stack if kind == 'mod']

    def in_test():
        return any(kind == 'mod' and name.startswith('#test#') for close, kind, name in ctx_stack)

    pending_cfg_test = False
    while i < n:
        t = toks[i]
        while ctx_stack and i > ctx_stack[-1][0]:
            ctx_stack.pop()
        if t.kind == 'punct' and t.text == '#' and i + 1 < n and toks[i + 1].text == '[':
            close = pairs[i + 1]
            txt = ''.join(x.text for x in toks[i + 2:close])
            if txt.replace(' ', '') == 'cfg(test)':
                pending_cfg_test = True
            i = close + 1
            continue
        if t.kind == 'id' and t.text in ('impl', 'trait') and _is_item_kw(toks, i):
            # find body `{`
            j = i + 1
            while j < n and not (toks[j].kind == 'punct' and toks[j].text in ('{', ';')):
                if toks[j].kind == 'punct' and toks[j].text in ('(', '['):
                    j = pairs[j]
                j += 1
            if toks[j].text == '{':
                name = _ctx_name(toks, i, j)
                ctx_stack.append((pairs[j], t.text, name))
                i = j + 1
                pending_cfg_test = False
                continue
        if t.kind == 'id' and t.text == 'mod' and i + 2 < n and toks[i + 1].kind == 'id' and toks[i + 2].text == '{':
            nm = toks[i + 1].text
            if pending_cfg_test:
                nm = '#test#' + nm
            ctx_stack.append((pairs[i + 2], 'mod', nm))
            pending_cfg_test = False
            i += 3
            continue
        if t.kind == 'id' and t.text == 'fn' and i + 1 < n and toks[i + 1].kind == 'id':
            name = toks[i + 1].text
            # parameters
            j = i + 2
            if toks[j].text == '<':
                depth = 0
                while True:
                    if toks[j].text == '<':
                        depth += 1
                    elif toks[j].text == '>':
                        depth -= 1
                    elif toks[j].text == '>>':
                        depth -= 2
                    j += 1
                    if depth <= 0:
                        break
            assert toks[j].text == '(', (name, toks[j].text, toks[j].line)
            p_open = j
            p_close = pairs[j]
            j = p_close + 1
            ret_arrow = None
            where_idx = None
            while not (toks[j].kind == 'punct' and toks[j].text in ('{', ';')):
                if toks[j].kind == 'punct' and toks[j].text == '->' and ret_arrow is None:
                    ret_arrow = j
                if toks[j].kind == 'id' and toks[j].text == 'where' and where_idx is None:
                    where_idx = j
                if toks[j].kind == 'punct' and toks[j].text in ('(', '['):
                    j = pairs[j]
                j += 1
            sig_end = j
            has_body = toks[j].text == '{'
            body_close = pairs[j] if has_body else None
            # item start: walk back over qualifiers
            k = i
            while k > 0:
                p = toks[k - 1]
                if p.kind == 'id' and p.text in ('pub', 'const', 'unsafe', 'async', 'extern', 'default'):
                    k -= 1
                elif p.kind == 'str' and k >= 2 and toks[k - 2].text == 'extern':
                    k -= 1
                elif p.text == ')' and k >= 2:
                    # pub(crate)
                    o = None
                    for oo, cc in pairs.items():
                        if cc == k - 1:
                            o = oo
                            break
                    if o is not None and o >= 1 and toks[o - 1].text == 'pub':
                        k = o - 1
                    else:
                        break
                else:
                    break
            item_start = k
            # attributes
            a = item_start
            while a >= 2 and toks[a - 1].text == ']':
                o = None
                for oo, cc in pairs.items():
                    if cc == a - 1:
                        o = oo
                        break
                if o is not None and o >= 1 and toks[o - 1].text == '#':
                    a = o - 1
                else:
                    break
            f = FnItem(name=name, ctx=cur_ctx(), mods=cur_mods(), item_start=item_start, attr_start=a,
                       fn_idx=i, sig_end=sig_end, body_close=body_close, has_body=has_body,
                       ret_arrow=ret_arrow, where_idx=where_idx, params_open=p_open,
                       params_close=p_close, in_test=in_test() or pending_cfg_test)
            if has_body:
                f.loops = find_loops(toks, pairs, sig_end, body_close)
            fns.append(f)
            pending_cfg_test = False
            # do not skip the body: nested fns are rare; but continue scanning after signature
            i = sig_end + 1
            # nested items inside bodies are not expected; skip body for speed/safety
            if has_body:
                i = body_close + 1
            continue
        if t.kind == 'id' and t.text in ('struct', 'enum', 'use', 'const', 'static', 'type'):
            pending_cfg_test = False
        i += 1
    return fns, pairs


def _is_item_kw(toks, i):
    # `impl` in type position (`-> impl Trait`, `x: impl T`) is not an item
    if i == 0:
        return True
    p = toks[i - 1]
    if p.kind == 'punct' and p.text in ('}', ';', ']', '{'):
        return True
    if p.kind == 'id' and p.text in ('pub', 'unsafe', 'default'):
        return True
    if p.text == ')':
        return True  # pub(crate) impl
    return False


def find_loops(toks, pairs, body_open, body_close):
    loops = []
    i = body_open + 1
    while i < body_close:
        t = toks[i]
        if t.kind == 'id' and t.text in ('loop', 'while', 'for'):
            # `for<'a>` HRTB is not expected inside bodies
            j = i + 1
            while j < body_close:
                tj = toks[j]
                if tj.kind == 'punct' and tj.text in ('(', '['):
                    j = pairs[j] + 1
                    continue
                if tj.kind == 'punct' and tj.text == '{':
                    break
                j += 1
            loops.append(Loop(i, j, pairs[j], t.text))
        i += 1
    return loops


def find_impls(toks, pairs):
    """All impl/trait blocks: dicts with kw index, first-attribute index, braces and summarised name."""
    rev = {c: o for o, c in pairs.items()}
    out = []
    n = len(toks)
    i = 0
    while i < n:
        t = toks[i]
        if t.kind == 'id' and t.text in ('impl', 'trait') and _is_item_kw(toks, i):
            j = i + 1
            while j < n and toks[j].text not in ('{', ';'):
                if toks[j].text in ('(', '['):
                    j = pairs[j]
                j += 1
            if j < n and toks[j].text == '{':
                k = i
                while k > 0 and toks[k - 1].kind == 'id' and toks[k - 1].text in ('pub', 'unsafe', 'default'):
                    k -= 1
                a = k
                while a >= 2 and toks[a - 1].text == ']' and toks[rev[a - 1] - 1].text == '#':
                    a = rev[a - 1] - 1
                out.append({'kw': i, 'start': k, 'attr_start': a, 'open': j, 'close': pairs[j],
                            'name': _ctx_name(toks, i, j)})
        i += 1
    return out
