#!/bin/bash
# usage: vf/seedrun.sh <patch.diff> <prop> [<prop> ...]   - apply a seeded change to /repo, run the quick checks, undo
PATCH=$(readlink -f $1); shift
git -C /repo apply $PATCH || { echo "patch does not apply to /repo"; exit 2; }
for p in "$@"; do
  # evidence files are rewritten on every run: keep the record of the unchanged tree
  cp /verif/evidence/$p.json /tmp/evidence_$p.json.keep 2>/dev/null
  out=$(cd /verif && bin/check $p --tier ${TIER:-quick} 2>&1); rc=$?
  [ -f /tmp/evidence_$p.json.keep ] && mv /tmp/evidence_$p.json.keep /verif/evidence/$p.json
  echo "== $p exit $rc: $(echo "$out" | grep -E "^(VIOLATION|OK|UNDECIDED|KNOWN)" | head -3 | tr '\n' ' ')"
  echo "$out" | grep "failed obligation" | head -4
done
git -C /repo checkout -- .
