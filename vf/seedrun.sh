#!/bin/bash
# usage: vf/seedrun.sh <patch.diff> <prop> [<prop> ...]   - apply a seeded change to /repo, run the quick checks, undo
PATCH=$(readlink -f $1); shift
git -C /repo apply $PATCH || { echo "patch does not apply to /repo"; exit 2; }
for p in "$@"; do
  out=$(cd /verif && bin/check $p 2>&1); rc=$?
  echo "== $p exit $rc: $(echo "$out" | grep -E "^(VIOLATION|OK|UNDECIDED|KNOWN)" | head -3 | tr '\n' ' ')"
  echo "$out" | grep "failed obligation" | head -4
done
git -C /repo checkout -- .
