"""Per-property configuration: which units/engines decide it, scope notes, trusted base."""

COMMON_TRUST = [
    'A1 tools: Verus 0.2026.09.13 / z3, rustc 1.98.1 front end; the splicing generator is re-checked by vf/fidelity.py, its lexer is not verified',
    'A2 machine arithmetic: usize counters (anchor_id_count, mark.index/line/col, tokens_parsed) do not overflow - stated as explicit preconditions (anchor_room, pos_room), i.e. "the input fits in memory"',
    'A3 assumed specifications of std / vstd functions (contracts/prelude_std.vrs); hash-table key model for Cow<str>/String keys',
    'A6 functions of the units left #[verifier::external_body] (count in functions_not_under_contract_in_these_units), compiler-derived trait impls (PartialEq of State/Event assumed structural), fmt, allocation',
]

PROPS = {
    'C02': {
        'units': ['parser'],
        'level': 'proof',
        'claim': 'Every state function of the pull parser, parse, next_event_impl, next_event and peek are verified by Verus against a push-down automaton for the event grammar written from the property statement (g_step over abs(state, states)), for ALL token streams - hence all inputs and all input back ends - with no bound; anchor ids via the anchors_inv invariant and the per-event anchor_step clause. Tests sample ~170 documents; the contract quantifies over every token sequence.',
        'technique': 'Verus: postconditions g_step(abs(old), event) == Some(abs(new)) on every parser state function; data-structure invariant on the state stack and anchor table',
        'not_decided': [
            'events after an Err are unspecified by design (the statement says "up to the first error")',
            'termination of the push interface loops is part of C01, not C02',
        ],
        'trust': ['A4 the scanner is an arbitrary token source here (Parser::scan_next_token is external_body with a frame-only assumed contract), so the result holds for every token stream'],
    },
}

PROPS['C16'] = {
    'units': ['parser'],
    'level': 'proof',
    'claim': 'Parser::resolve_tag is verified against resolve_spec, a spec function transcribed from the property statement (five cases); parser_process_directives against tag_table/dup_handle (all %TAG directives of a document in force together, a handle only once, a second %YAML rejected); document_end resets the table unless keep_tags. For all token streams and all table contents.',
    'technique': 'Verus: function-against-spec-function postconditions on resolve_tag and parser_process_directives; loop invariant relating the local table to tag_table(prefix)',
    'not_decided': ['the character-level tag scanners (scan_tag*, scan_uri_escapes) are tier 2 of the scanner unit', 'percent-decoding of the suffix happens in the scanner'],
    'trust': ['hash-table key model for String keys looked up through &str (string_of axioms)', 'Display/to_string of String and Cow<str> prints the content', 'closure ensures annotations inserted into resolve_tag (insert-only, logged as R7)'],
}


def trusted_base(pid):
    return COMMON_TRUST + PROPS[pid].get('trust', [])


def assumptions(pid):
    return trusted_base(pid)
