"""Per-property configuration: which units/engines decide it, scope notes, trusted base."""

COMMON_TRUST = [
    'A1 tools: Verus 0.2026.09.13 / z3, rustc 1.98.1 front end; the splicing generator is re-checked by vf/fidelity.py, its lexer is not verified',
    'A2 machine arithmetic: usize counters (anchor_id_count, mark.index/line/col, tokens_parsed) do not overflow - stated as explicit preconditions (anchor_room, pos_room), i.e. "the input fits in memory"',
    'A3 assumed specifications of std / vstd functions (contracts/prelude_std.vrs); hash-table key model for Cow<str>/String keys',
    'A6 functions of the units left #[verifier::external_body] (count in functions_not_under_contract_in_these_units), compiler-derived trait impls (PartialEq of State/Event assumed structural), fmt, allocation',
]

PROPS = {
    'C02': {
        'units': ['parser'],
        'level': 'proof',
        'claim': 'Every state function of the pull parser, parse, next_event_impl, next_event and peek are verified by Verus against a push-down automaton for the event grammar written from the property statement (g_step over abs(state, states)), for ALL token streams - hence all inputs and all input back ends - with no bound; anchor ids via the anchors_inv invariant and the per-event anchor_step clause. Tests sample ~170 documents; the contract quantifies over every token sequence.',
        'technique': 'Verus: postconditions g_step(abs(old), event) == Some(abs(new)) on every parser state function; data-structure invariant on the state stack and anchor table',
        'not_decided': [
            'events after an Err are unspecified by design (the statement says "up to the first error")',
            'termination of the push interface loops is part of C01, not C02',
        ],
        'trust': ['A4 the scanner is an arbitrary token source here (Parser::scan_next_token is external_body with a frame-only assumed contract), so the result holds for every token stream'],
    },
}

PROPS['C16'] = {
    'units': ['parser'],
    'level': 'proof',
    'claim': 'Parser::resolve_tag is verified against resolve_spec, a spec function transcribed from the property statement (five cases); parser_process_directives against tag_table/dup_handle (all %TAG directives of a document in force together, a handle only once, a second %YAML rejected); document_end resets the table unless keep_tags. For all token streams and all table contents.',
    'technique': 'Verus: function-against-spec-function postconditions on resolve_tag and parser_process_directives; loop invariant relating the local table to tag_table(prefix)',
    'not_decided': ['the character-level tag scanners (scan_tag*, scan_uri_escapes) are tier 2 of the scanner unit', 'percent-decoding of the suffix happens in the scanner'],
    'trust': ['hash-table key model for String keys looked up through &str (string_of axioms)', 'Display/to_string of String and Cow<str> prints the content', 'closure ensures annotations inserted into resolve_tag (insert-only, logged as R7)'],
}

PARSER_TRUST = ['A4 the scanner is an arbitrary deterministic token source: Scanner::future() is an uninterpreted finite token sequence and Parser::scan_next_token (external_body, 8 lines, no panic site) is assumed to deliver its head / fail when it is empty, and to restate two clauses verified on Scanner::next_token (#end-latch: the scanner has ended exactly when the token just handed out is StreamEnd; nothing is handed out after the end); hence results hold for every token stream with that latch']

PROPS['C01'] = {
    'units': ['parser', 'loader'],
    'level': 'proof',
    'claim': 'Panic-freedom and termination as verifier-generated obligations on the real code: every unwrap/expect/unreachable!/assert_eq!/overflow site of parser.rs (pop_state, fetch_token, the four unreachable!() of parse_node, State::End arm, load_node unreachable!, load_document assert_eq!) is discharged from the state-stack invariant and the event grammar; the token loops of document_start and parser_process_directives carry decreases clauses; every delivered event strictly decreases the measure 4*|upcoming tokens| + rank(state, next token), which gives termination of load / load_node / load_sequence / load_mapping (loop and recursion decreases clauses). char_traits.rs, all 34 Input trait methods (provided ones against the abstract input contract), the StrInput char-iterator methods and the scanner position helpers are verified panic-free under their contracts. The token pump of the scanner (fetch_next_token, fetch_more_tokens with the decreases clause pump_measure, next_token) and everything it calls except the body of scan_block_scalar is verified panic-free and terminating under the scanner invariant sc_inv. Unit loader: every unwrap / unreachable! of YamlLoader::on_event and insert_new_node is discharged from the admissibility of the event. All token streams / all inputs, no bound.',
    'technique': 'Verus: safety obligations (unwrap, unreachable!, assert_eq!, arithmetic) discharged from contracts and invariants; decreases clauses for termination',
    'not_decided': [
        'linear work bound (no cost model in the verifier)',
        'scanner, Input implementations and loader functions not yet under contract are listed as external_body in the evidence; a panic inside them would not be seen',
    ],
    'trust': PARSER_TRUST,
}
PROPS['C06'] = {
    'units': ['parser'],
    'level': 'proof',
    'claim': 'Rejection mechanisms as "pattern ==> r is Err" postconditions over the upcoming token kinds (the parser table): wrong/missing flow closer or comma, EOF inside a flow collection, block entry/key not continuing its collection, second root node, directives without ---, repeated %YAML, directive after an implicit document end, repeated %TAG handle, undeclared named handle. Proved for all token streams.',
    'technique': 'Verus: per-state-function postconditions of the form (next token kind not in allowed set) ==> Err',
    'not_decided': [
        'that a character-level damage operator produces the token pattern on the left of each clause (needs the functional spec of the scanner, see C03)',
        'scanner-level rejections (unterminated quote, tabs, escapes, content after ...) belong to the scanner unit tiers',
        'alias without anchor: parse_node returns Err when the lookup fails, but the clause is not yet stated separately',
    ],
    'trust': PARSER_TRUST,
}
PROPS['C15'] = {
    'units': ['parser'],
    'level': 'proof',
    'claim': 'Reset post-states of the document-boundary functions: document_end leaves an empty %TAG table unless keep_tags (and the same table with it); parser_process_directives leaves the table untouched when a document has no directives and otherwise installs exactly this document\'s table; load clears the anchor table before each document (anchors_inv re-established from empty); after DocumentEnd the control state is abs == Between with an empty state stack (from the C02 contracts); document_start consumes every leading document-end marker before it looks at the next document. Scanner side: a document marker or directive line leaves indent == -1, an empty indentation stack, no possible simple key and no key permission (flow_level == 0), the end of the stream leaves no possible key, and - as a conjunct of the scanner invariant sc_inv, re-proved by every fetch_* function - outside every flow collection the flag flow_mapping_started is false, so no flow state is carried into the next block entry or document.',
    'technique': 'Verus: postconditions on document_end / parser_process_directives / document_start / load and on the scanner\'s fetch_document_indicator / fetch_directive / fetch_stream_end / fetch_flow_collection_end stating the reset state; scanner invariant sc_inv',
    'not_decided': [
        'the concatenation theorem A ++ "..." ++ B itself (a two-run statement) is not mechanised',
        'inside nested flow collections the flag flow_mapping_started can be stale (one boolean for a stack of collections): observed, belongs to C03 (not applicable)',
    ],
    'trust': PARSER_TRUST,   # + SCANNER_TRUST, added below once it is defined
}
PROPS['C17'] = {
    'units': ['parser'],
    'level': 'proof',
    'claim': 'Cache discipline of peek / next_event / next_event_impl as frame-exact postconditions: peek-hit changes nothing and shows the cached pair; peek-miss performs exactly one parse and caches an Ok result, passes an Err on uncached; next-hit hands over the cached pair and leaves the core untouched; next-miss is exactly one parse; the fuse is set iff StreamEnd is handed out and afterwards both return None without changing anything. load / load_document / load_node / load_sequence / load_mapping pull through the same next_event_impl and are verified to follow the event grammar.',
    'technique': 'Verus: frame-exact postconditions (same_core / parse_post) on the cache functions',
    'not_decided': [
        'event-for-event equality of the push and pull streams as a trace theorem (needs a ghost log of delivered events; grammar conformance of both is proved)',
        'determinism of parse (A4) is assumed for the history lemma',
    ],
    'trust': PARSER_TRUST,
}

PROPS['C11'] = {
    'units': ['parser'],
    'level': 'proof',
    'claim': 'Flow nesting: increase_flow_level is verified to fail (Err) at level 255 and otherwise to add exactly one level and one simple-key slot, decrease_flow_level to be its inverse. The pull parser keeps its continuation on the heap Vec<State> (C02 contracts). The push interface recurses once per nesting level: load_node carries the precondition nest_bounded() and the recursion a lexicographic decreases clause; the termination part is proved, the depth precondition cannot be established at the three recursive call sites because nothing bounds block nesting - reported as KNOWN-FINDING (100 000 x "- " aborts load_from_str with a stack overflow).',
    'technique': 'Verus: postconditions on the flow-level functions; recursion measure and depth precondition on load_node/load_sequence/load_mapping',
    'not_decided': ['bytes of machine stack per frame', 'recursion of derived Drop/Clone/Eq/Hash on the loaded tree and of the emitter (compiler-generated or outside the units)', 'the scanner invariant flow_level <= 255 follows from the u8 type'],
    'trust': PARSER_TRUST,
}

SCANNER_TRUST = ['input model: Input::rem()/avail()/buffered()/cap() are ghost methods of the trait; every implementation must define them and is verified (or, for the byte-indexed StrInput overrides and the two indexing one-liners of BufferedInput, assumed - see functions_not_under_contract) against the same clauses',
                 'ASSUMED (A8, UTF-8): while all bytes in front of position k of a str are ASCII, the first k characters are those bytes, the string ends where the bytes end, and byte k is character k or the lead byte of a non-ASCII character k (axiom_utf8_ascii_prefix); slicing / strip_prefix at such a position drops that many characters (verif_str_from via rewrite R12, str::strip_prefix)',
                 'ASSUMED (A7) for BufferedInput: the character source is a deterministic, fused, finite iterator (its future output is a function of its state); rewrite R11 routes its three next() calls through a helper carrying that contract, because Verus specifies Iterator::next through prophetic values, which cannot appear in decreases clauses',
                 'scanner functions not yet under contract are external_body: their callers learn nothing about them',
                 'ASSUMED (A6): #[derive(Clone)] of SimpleKey copies every field - one assume() after the clone in fetch_value (derived code inside the crate cannot carry a contract)',
                 'ASSUMED frame of scan_block_scalar in the quick tier only (scalar_scan_post: only the position moves, truthfully; token queue and simple keys untouched; at least one character consumed); the thorough tier verifies its body; scan_flow_scalar and scan_plain_scalar are verified in both tiers',
                 'ASSUMED (A2): token_count + 8 fits in usize (axiom_token_count_fits)',
                 'rewrites R8 (`&mut self.simple_keys` -> `self.simple_keys.iter_mut()`, what <&mut Vec as IntoIterator>::into_iter calls) and R9 (the one format! error message evaluated in an external_body helper)']

PROPS['C15']['trust'] = PARSER_TRUST + SCANNER_TRUST
PROPS['C04'] = {
    'units': ['parser'],
    'level': 'proof',
    'claim': 'Escapes: Scanner::resolve_flow_scalar_escape_sequence is verified against yaml_escape / hex_value / is_scalar_value written from YAML 1.2 section 5.7: every named escape yields its code point and consumes exactly two characters; \\x \\u \\U need exactly 2/4/8 hex digits forming a Unicode scalar value and yield that code point; every other escape character and every truncated or non-scalar hex escape is an Err. Quoted scalars: consume_flow_scalar_non_whitespace_chars is verified against the recursive oracle nw_spec (decoded text of a run of non-blank characters, quote doubling, escaped line break); scan_flow_scalar ensures that the token text is qfs(characters after the opening quote), the whole-token oracle that alternates nw_spec runs with qws_text(white-space run) up to the closing quote, qws_text being the folding rule of the statement (one break -> space, n+1 breaks -> n line feeds, blanks around a break dropped, an escaped break joins without a space). Plain scalars: scan_plain_scalar ensures that the token text is pfs(characters consumed).out, pfs being the left-to-right folding oracle (content verbatim, interior blanks kept, one break -> space, n+1 breaks -> n line feeds, CR LF once, trailing white space dropped), and that content characters are exactly those sp_plain_ok admits. char class predicates equal their spec classes. For all inputs, no bound.',
    'technique': 'Verus: function-against-spec-function postconditions (yaml_escape table, hex_value recursion, nw_spec, qws_text, pfs), ghost accumulator for the quoted-scalar loop, opaque value-level invariant plain_rel_v with one lemma per transition for the plain-scalar loops',
    'not_decided': ['quoted scalars: Ok implies text == qfs(input); the converse (qfs defined implies Ok) is not claimed - document markers, indentation and trailing-content checks reject more', 'plain scalars: the clause is stated for a scalar that starts at a non-blank character (every call site in the scanner)', 'next_can_be_plain_scalar: default implementation verified against sp_plain_ok; the StrInput override is byte-indexed (A8 + bounded Kani differential, see C10)'],
    'trust': SCANNER_TRUST + ['R13: `string.into()` (String -> Cow<str>) in scan_plain_scalar and scan_flow_scalar is evaluated by the external_body helper verif_string_into_cow with the ASSUMED contract r@ == s@ (vstd has no specification for the blanket Into)'],
}
PROPS['C10'] = {
    'units': ['parser'],
    'extra': ['kengine'],
    'level': 'proof',
    'claim': 'One abstract Input contract (remaining characters, peek entitlement, buffer count, capacity) is the single specification: all provided methods of the trait are verified against it from the required ones (including skip_ws_to_eol against ws_eol_spec and the counting loops against prefix-length spec functions, counts in characters); the StrInput char-iterator methods (lookahead, buflen, bufmaxlen, buf_is_empty, raw_read_ch, raw_read_non_breakz_ch, skip, skip_n, peek, peek_nth, look_ch, next_char_is, nth_char_is, next_2_are, next_3_are, skip_while_non_breakz, split_first_char) are verified against the same clauses; its byte-indexed overrides (the nine next_is_* predicates, next_is_document_start / end / indicator, next_can_be_plain_scalar, skip_while_blank, skip_ws_to_eol) are verified against the same clauses under the assumed UTF-8 facts A8 and, BOUNDED (Kani, strings of at most 2-6 bytes), shown equal to the provided default methods without A8. BufferedInput (the back end behind load_from_str / load_from_iter) is verified against the same clauses with the model rem() = (look-ahead buffer ++ what the iterator will still deliver) modulo trailing NULs: lookahead (incl. the NUL padding of an exhausted source), buflen, bufmaxlen, raw_read_ch, raw_read_non_breakz_ch, skip, skip_n. The scanner and parser are verified against the abstract contract only, so they behave identically on every conforming back end.',
    'technique': 'Verus: trait-level contract; default methods and StrInput overrides verified against the same postconditions',
    'not_decided': ['StrInput::fetch_while_is_alpha (pointer arithmetic on as_ptr()) is assumed to meet the contract', 'the other byte-indexed StrInput overrides are verified under the ASSUMED UTF-8 facts A8 (axiom_utf8_ascii_prefix, verif_str_from, strip_prefix) and, independently of A8 but BOUNDED, compared with the default trait methods by the Kani harnesses c10_str_*', 'BufferedInput::peek / peek_nth (self.buffer[n]: arraydeque Index cannot carry a contract) are assumed to return the n-th buffered character', 'the two-run theorem "same events, spans, error" is the conjunction of these per-method facts with the determinism of the scanner; it is not mechanised'],
    'trust': SCANNER_TRUST,
}
PROPS['C12'] = {
    'units': ['parser'],
    'level': 'proof',
    'claim': 'Positions are true positions, relationally: mark_after(pos, s) counts characters and line breaks (CR LF, lone CR, LF) from the property statement; adv_rel / Scanner::advanced_from says "since state o, whole characters/breaks were consumed and the mark is mark_after of them". Proved for skip_blank, skip_non_blank, skip_n_non_blank, skip_nl (under their non-break / break side conditions), skip_linebreak, skip_break, read_break, skip_ws_to_eol, skip_to_next_token, skip_yaml_whitespace (incl. the manual mark updates after bulk input operations) and resolve_flow_scalar_escape_sequence; composition by the transitivity lemma. Invariant pos_inv: (line-1)+col <= index and index + |remaining| constant, so the index stays within the input. Bulk counts are in characters.',
    'technique': 'Verus: relational postcondition advanced_from (mark == mark_after(old mark, consumed prefix)) with transitivity lemma; invariant pos_inv',
    'not_decided': ['scanner functions not yet under contract (directive/tag/anchor scanners, scalar scanners) - their manual mark updates are the next tier', 'span construction per token, ScanError Display, with_span on loaded nodes'],
    'trust': SCANNER_TRUST,
}
PROPS['C14'] = {
    'units': ['parser'],
    'level': 'proof',
    'claim': 'Break handling is break-kind agnostic: break_len(rem) in {0,1,2}; skip_linebreak / skip_break / read_break are verified to consume exactly break_len characters and to leave index + break_len, line + 1, column 0 - the same line and column for LF, CR LF and lone CR - and read_break pushes exactly one LF; skip_break/read_break carry the precondition "at a break with two characters of lookahead" which every verified call site must establish (the historic fuzz crash is a failed precondition). is_break / is_breakz / is_blank_or_breakz equal their spec classes for every char.',
    'technique': 'Verus: contracts stated over break_len; character-class postconditions',
    'not_decided': ['the bisimulation between the run on s and on crlf(s) as a two-run theorem', 'call sites inside scanner functions not yet under contract'],
    'trust': SCANNER_TRUST,
}

PROPS['C18'] = {
    'units': [],
    'extra': ['kengine'],
    'level': 'model_checking',
    'claim': 'BOUNDED (Kani/CBMC, not a proof): decode_loop cannot be brought under Verus (the trap enum holds a function pointer, which the verifier rejects), so a bounded harness on the real function stands in: with encoding_rs::Decoder::decode_to_string_without_replacement replaced by a nondeterministic stub of its documented contract, for every input of <= 1 byte, all trap modes and every decoder behaviour, decode_loop returns within 16 iterations and no slice index or arithmetic check fails. COMPLETE (loop-free harness over all byte values): detect_utf16_endianness equals the rule of the statement.',
    'technique': 'Kani bounded harness with a contract stub of the decoder (bounded stand-in); loop-free Kani harness for the BOM-less detector (complete)',
    'checker_cmd': 'cargo kani -Z function-contracts -Z stubbing --harness c18_decode_loop_terminates --harness c18_detect_utf16',
    'not_decided': ['that the decoded text equals the original (correctness of encoding_rs, assumed)', 'read_to_end, the YAML loading after decoding, the user callback', 'inputs longer than the bound: the termination argument (lexicographic measure: bytes left, output headroom, room-for-one-character flag) is only checked up to the unwinding bound'],
    'trust': ['ASSUMED contract of encoding_rs::Decoder (stub in kani/encoding_harness.rs, from the crate documentation); String::reserve/push modelled by capacity/length counters; format! stubbed'],
}

PROPS['C08'] = {
    'units': [],
    'extra': ['kengine'],
    'level': 'model_checking',
    'claim': 'BOUNDED (Kani/CBMC, not a proof): the real Scalar::parse_from_cow / parse_from_cow_and_metadata / ScalarOwned variants are compared with an executable transcription of the YAML 1.2.2 core schema (10.3.2) and of the property statement, for every string of length 1..3 (quick; ..5 thorough) over the 38-symbol alphabet of the property, every tag choice and every non-plain style. i64 parsing runs the real std code; f64::from_str is replaced by a stub of its documented grammar, so the numeric value of an accepted decimal float is trusted to std.',
    'technique': 'Kani contract harnesses of the real resolver against an executable core-schema oracle (bounded stand-in; strings up to length 3 quick / 5 thorough)',
    'checker_cmd': 'cargo kani -Z function-contracts -Z stubbing --harness c08_...',
    'not_decided': ['strings longer than the bound and characters outside the alphabet', 'boundary integers around +-2^63 beyond the length bound', 'the value of decimal floats (std dec2flt, stubbed)', 'value_from_cow_and_metadata -> BadValue mapping in macros.rs and the early_parse switch of the loader (C19/C07 scope)'],
    'trust': ['ASSUMED contract of <f64 as FromStr>::from_str (grammar from the std documentation; stub in kani/scalar_harness.rs)'],
}

LOADER_TRUST = ['stand-ins in contracts/prelude_loader.vrs (ASSUMED models, A5): saphyr_parser::{Event, Span, ScalarStyle, Tag, Parser, SpannedEventReceiver}, saphyr::Yaml / Mapping, hashlink::LinkedHashMap (insert: append, or keep the first key, replace the value and move to the back - from the 0.10 source, also stated as the one term lhm_insert; entry + Entry::or_insert: a vacant entry appends, an occupied one keeps key, value and place - not called by the unchanged loader, modelled so that a loader that does is judged), LoadableYamlNode::treeify / lemma_treeify (a definitional name for the pairs of a map read as trees), vstd specs of Vec / BTreeMap / Option',
                'ASSUMED of every node type (trait proof obligations without body): a clone denotes the same tree; keys compare equal exactly when they denote the same tree; the key made from a node denotes the node\'s tree',
                'the contracts of the LoadableYamlNode methods (from_bare_yaml, is_*, sequence_mut, mapping_mut, take, with_span) bind the four node types; their implementations are macro-generated / hand-written outside this unit and are only checked at leaf level under C19',
                'recv_pre (the event is admissible in the current nesting) is owed by the producer: Parser::load is verified in unit `parser` to emit a well-nested sentence (C02), but the correspondence between its grammar configuration and the loader\'s stack is by inspection, not mechanised',
                'rewrite R10: `key.into()` -> `Node::verif_into_key(key)` (an external_body helper that calls `.into()`; Verus has no specification for the blanket Into impl)']

PROPS['C07'] = {
    'units': ['loader'],
    'level': 'proof',
    'claim': 'The real YamlLoader (saphyr/src/loader.rs, generic in the node type) is verified against an abstract loader written from the property statement: state = (finished documents, open collections with their anchor ids, per open mapping the key waiting for its value, completed anchored nodes) over abstract trees; on_event performs exactly l_step(state, event) for every event - DocumentEnd appends the root (BadValue for an empty document), a finished node goes to its parent as next sequence item / key / value (later value wins, the pair moves to the back) or becomes the root, an alias is a copy of the completed anchored node or BadValue while that node is still open, a scalar is bare_tree(resolve(text, style, tag)) or its representation with deferred resolution; into_documents returns the documents in stream order; Default starts empty.  No unwrap / unreachable! of the loader can fire for an admissible event (C01).  For all event sequences and all node types that meet the trait contracts, no bound.',
    'technique': 'Verus: data structure against an abstract view (abs()) with a functional step oracle (l_step / l_complete / tmap_insert); trait-level contracts for the node type; &mut-returning trait methods specified through final()',
    'not_decided': ['that the producer really calls on_event once per event in order and stops at the first error (Parser::load: unit parser, C17/C02) - "a load fails exactly when the parser reports an error" is the `?` in load_from_parser, which is outside this unit', 'the four implementations of LoadableYamlNode against the trait contracts (leaf level: C19)', 'which value the resolver chooses (C08)'],
    'trust': LOADER_TRUST,
}

PROPS['C09'] = {
    'units': [],
    'extra': ['kengine'],
    'level': 'model_checking',
    'claim': 'BOUNDED (Kani/CBMC on the real functions, not a proof; the two string mechanisms of the round trip only): (1) need_quotes: every string of length 1..3 (quick; ..4 thorough) over the alphabet of the property, and 13 type-like words, that the emitter writes unquoted is not a core-schema null/bool/int/float literal - so it reloads as the same string (the resolver is checked against the same oracle under C08) - and is a legal one-line plain scalar; (2) escape_str: for every ASCII string of length 1..3 the output is a single-line double-quoted scalar that decodes back to the original.',
    'technique': 'Kani bounded harnesses on the real need_quotes / escape_str against executable oracles written from YAML 1.2 (7.3.3 plain scalars, 5.7 escapes, 10.3.2 core schema)',
    'checker_cmd': 'cargo kani -Z function-contracts -Z stubbing --harness c09_...',
    'not_decided': ['the round trip as a whole (emit_node / emit_val layout, indentation, compact and multiline_strings settings, collection keys): no contract within reach states "the emitted text parses back"', 'floats: what write!("{v}") produces is beyond CBMC even for concrete values; observed on the real code and NOT decided or repaired here: 1.0 is written as "1" and -0.0 as "-0", which reload as integers', 'non-ASCII strings in escape_str (copied through unchanged by its catch-all arm), strings longer than the bounds', 'emitting the reloaded tree reproduces the same text'],
    'trust': ['ASSUMED contract of <f64 as FromStr>::from_str (grammar from the std documentation; stub in kani/emitter_harness.rs)', 'the plain-scalar and core-schema oracles are transcriptions of the YAML 1.2 productions (the core-schema one is the oracle the real resolver is checked against under C08)'],
}

PROPS['C19'] = {
    'units': [],
    'extra': ['kengine'],
    'level': 'model_checking',
    'claim': 'BOUNDED (Kani/CBMC on the real functions, not a proof; node-level mechanisms only): (1) resolving an already-resolved leaf leaves it untouched - Yaml::parse_representation and parse_representation_recursive on Null / Boolean / Integer / Alias / BadValue leaves, full value ranges (this is where take() must put the node back); (2) from_bare_yaml of Yaml, MarkedYaml and YamlOwned keeps the data of such a leaf; (3) Scalar -> ScalarOwned -> Scalar is the identity on null/bool/int/string; (4) equality and hashing of marked nodes ignore the span. Trees are not covered: a one-element sequence already exceeds what CBMC finishes here.',
    'technique': 'Kani bounded harnesses on the real macro-generated methods (bounded stand-in; leaf shapes with full value ranges)',
    'checker_cmd': 'cargo kani -Z function-contracts -Z stubbing --harness c19_...',
    'not_decided': ['whole documents: that the four node types hold structurally identical data for one input (needs the loader, C07 scope)', 'deferred == eager resolution of Representation nodes (tried; the resolver under CBMC did not finish - it is the subject of the C08 harnesses)', 'containers in parse_representation_recursive (Sequence / Mapping arms): not reachable with CBMC here; the Sequence arm was repaired together with the catch-all arms on the strength of the demonstrated failing input only', 'String leaves (Cow<str>) in the keeps-resolved / from_bare harnesses', 'MarkedYamlOwned / YamlDataOwned variants of parse_representation*'],
    'trust': ['Kani/CBMC; unwinding bound 12 with unwinding assertions; values are mem::forget-ed at the end of each harness so that the recursive drop glue of Yaml is not explored'],
}

PROPS['C05'] = {
    'units': ['parser'],
    'level': 'proof',
    'claim': 'Tier 1 (block scalar helpers, each against a line-model oracle from YAML 1.2 section 8.1): skip_block_scalar_first_line_indent == fli_* (auto-detected indentation = largest column reached on the leading blank lines and the first content line, at least parent indentation + 1, one LF recorded per blank line); skip_block_scalar_indent == bsi_* (at most `indent` spaces per line, whole blank lines, one LF each) with the SAME postcondition for the single-lookahead branch and the chunked branch; scan_block_scalar_content_line appends exactly the characters up to the next break/end (buffered and raw path alike) and advances the mark by that many characters. Thorough tier only (scan_block_scalar is verified there, 310 M resource units): a zero indentation indicator is an error; the blank lines in front of the first content line are kept as line feeds of their own; what is written between two content lines is bs_join (literal: every break verbatim; folded: the break between two non-indented lines becomes a space, or gives way to the blank lines after it, while breaks around more-indented lines are kept); each content line is appended verbatim; the tail is bs_tail (strip: nothing, clip: the last line\'s own break - an implicit one exactly when the input ends behind a content line that has none -, keep: also the trailing blank lines); at content indentation 0 a document marker line (--- or ...) is not a content line. For all inputs and all conforming input back ends, no bound.',
    'technique': 'Verus: function-against-spec-function postconditions (recursive line-model oracles) with loop invariants',
    'not_decided': ['quick tier: the body of scan_block_scalar is not verified (ASSUMED frame)', 'the join and tail clauses are stepwise oracles over a ghost accumulator (each step against bs_join / bs_tail), not one function of the whole input: characters consumed between the steps are covered by the helper contracts only', 'header parsing beyond the zero indicator (which characters select chomping / indentation) and the value of a block scalar without any content line (the early return at the end of the input) are not under contract; observed: `--- |` at the end of the input yields "\\n" for clip, `--- |` followed by `...` yields ""'],
    'trust': SCANNER_TRUST + ['A9 (thorough tier): the derived PartialEq of the field-less enum Chomping is structural equality (PartialEqSpecImpl inserted for it)'],
}


# as-built overrides of claims / not_decided lists written earlier in this file (kept current with DESIGN.md section 9)
PROPS['C12']['claim'] = 'Positions are true positions, relationally: mark_after(pos, s) counts characters and line breaks (CR LF, lone CR, LF) from the property statement; adv_rel / Scanner::advanced_from says "since state o, whole characters/breaks were consumed and the mark is mark_after of them". Proved for the position helpers (skip_blank, skip_non_blank, skip_n_non_blank, skip_nl, skip_linebreak, skip_break, read_break, skip_ws_to_eol, skip_to_next_token, skip_yaml_whitespace, incl. the manual mark updates after bulk input operations) and carried as the clause #true-position through every scanner function under contract: the directive, tag, anchor and escape scanners, the three scalar scanners (scan_block_scalar in the thorough tier), every fetch_* function, fetch_next_token, fetch_more_tokens and next_token - composition by the transitivity lemma, so the mark at every token boundary is mark_after((0,1,0), consumed input). Invariant pos_inv: (line-1)+col <= index and index + |remaining| constant, so the index stays within the input. Spans: scalar and collection tokens start at the mark where their first character was read and end at the mark after their last (#span, #span-start, #span-end clauses); bulk counts are in characters. One KNOWN-FINDING: the stream end at an embedded NUL forces a line break.'
PROPS['C12']['not_decided'] = ['ScanError Display (external trait impl) and with_span on loaded nodes (C19 territory)', 'error markers: covered where the error is built from self.mark or a saved mark of a verified function; ScanError::new_str is external_body and assumed to store the marker it is given', 'spans of events synthesised by the parser (empty scalars, implicit document start/end) are copies of token marks; the copying itself is not specified', '"a nested node starts no earlier than its parent" follows from token order and is not stated']
PROPS['C01']['not_decided'] = ['linear work bound (no cost model in the verifier)', 'the functions listed as external_body in the evidence (ScanError constructors, SkipTabs accessors, the Iterator::next wrappers of Scanner and Parser, BufferedInput::peek/peek_nth, StrInput::fetch_while_is_alpha, in the quick tier the body of scan_block_scalar): a panic inside them would not be seen', 'Iterator for Scanner / Parser: the trait impls cannot carry the invariant as a precondition; they only forward to next_token / next_event, which are verified']
PROPS['C02']['claim'] = "Every state function of the pull parser, parse, next_event_impl, next_event and peek are verified by Verus against a push-down automaton for the event grammar written from the property statement (g_step over abs(state, states)), for ALL token streams - hence all inputs and all input back ends - with no bound; anchor ids via the anchors_inv invariant and the per-event anchor_step clause. Push interface: with the ghost log rlog() of what a receiver has been handed, log_cfg(log) (the fold of g_step over the log) equals the parser's own configuration after every successful load_node / load_sequence / load_mapping / load_document, and Parser::load from a fresh parser hands over a complete sentence (log_cfg == Done with multi, Done or Between without). Tests sample ~170 documents; the contract quantifies over every token sequence."
PROPS['C06']['not_decided'] = ['that a character-level damage operator produces the token pattern on the left of each parser clause (needs the functional spec of the scanner, see C03)', 'scanner-level rejections are stated where the scanner function is under contract: quoted scalar still open at the end of input / at a document marker (#closing-quote-seen), tab as indentation in plain and quoted scalars (pws_ok / qws_ok), unknown or truncated escape (#error-only-for-bad-escape), stale required key and key longer than 1024 characters (#required-key-went-stale), key where keys are not allowed, zero indentation indicator (thorough tier), tab as block indentation in front of a token (skip_to_next_token against the oracle stn_ok), content after a document-end marker (fetch_next_token #nothing-after-document-end), a quoted implicit key spanning lines (scan_flow_scalar #quoted-key-on-one-line), a flow collection continued no deeper than its enclosing block (#flow-deeper-than-block, #one-column-deeper)', 'alias without anchor is stated over the parser\'s anchor table (parse_node #unknown-alias: a name the table does not hold is an error); that the table holds exactly the anchors seen so far in the stream follows from register_anchor / anchors_inv']
PROPS['C14']['not_decided'] = ['the bisimulation between the run on s and on crlf(s) as a two-run theorem (what is proved: every break-consuming step has the same effect on line, column and text for LF, CR LF and lone CR)']
PROPS['C16']['not_decided'] = ['the scanner-level text of tags is decided for Ok results (scan_tag against tag_tok_spec, the URI-run loops against uri_run, scan_tag_handle verbatim, scan_uri_escapes against pct_char); which characters may follow a tag (blank, break, flow indicator) is checked by the code but not part of the oracle']
PROPS['C16']['claim'] = PROPS['C16']['claim'] + ' Scanner side: the (handle, suffix) pair of a tag token is tag_tok_spec(text) - verbatim, secondary / named handle with a non-empty suffix, primary handle, non-specific - with percent escapes decoded as UTF-8 (uri_run / pct_char); the prefix of a %TAG directive is tag_prefix_spec(text).'
PROPS['C16']['trust'] = PROPS['C16']['trust'] + SCANNER_TRUST + ['R14: string.extend(head.chars().skip(1)) is evaluated by the external_body helper verif_extend_skip1 with the ASSUMED contract "appends head without its first character"', 'String::len is modelled as utf8_len(characters): ASSUMED to be at least the number of characters and 1 for a single ASCII character']
PROPS['C17']['not_decided'] = ['event-for-event equality of the push and pull streams as one trace theorem: what is proved is that both pull through next_event_impl, that the push interface delivers every event it pulls at once and in order (ghost log rlog(), also on the error path), and that the log follows the same grammar configuration as the parser', 'determinism of parse (A4) is assumed for the history lemma', 'mixed use (peek before load, next after load has delivered StreamEnd) is not covered by the statement and not specified']


def trusted_base(pid):
    if not PROPS[pid].get('units'):
        return ['A1 tools: Kani 0.68 / CBMC 6.11; the scratch crate is a byte-identical copy of /repo/<crate>/src with a marked harness module appended (re-checked on every run)'] + PROPS[pid].get('trust', [])
    return COMMON_TRUST + PROPS[pid].get('trust', [])


def assumptions(pid):
    return trusted_base(pid)
