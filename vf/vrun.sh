#!/bin/bash
# dev helper: generate + verus + short error listing
cd /verif && python3 vf/dev.py ${1:-parser} || exit 2
cd /var/tmp/vp && (time verus unit_${1:-parser}.rs --output-json --time --num-threads 16 -V spinoff-all ${VERUS_EXTRA} 2>err.txt >out.txt)
grep -c '^error' err.txt
grep -B1 -A${CTX:-14} '^error' err.txt | grep -v '^warning' | head -${LINES_MAX:-120}
python3 -c "
import json
d=json.load(open('out.txt'))
print(d['verification-results'])
" 2>/dev/null
