#!/usr/bin/env python3
"""usage: vf/seedstore.py <name> <property> <srcdir> <demo file> '<needs>' '<what was run / outcome>' '<detected by>'"""
import json, os, shutil, sys
name, prop, src, demo, needs, ran, det = sys.argv[1:8]
d = os.path.join(os.path.dirname(os.path.dirname(os.path.abspath(__file__))), 'seeded', name)
os.makedirs(d, exist_ok=True)
shutil.copy(os.path.join(src, 'patch.diff'), os.path.join(d, 'patch.diff'))
shutil.copy(demo, os.path.join(d, os.path.basename(demo)))
if os.path.exists(os.path.join(src, 'NOTES.md')):
    shutil.copy(os.path.join(src, 'NOTES.md'), os.path.join(d, 'NOTES.md'))
json.dump({'property': prop, 'needs_to_manifest': needs, 'confirmed_by': ran, 'detected_by': det,
           'repo_commit': os.popen('git -C /repo rev-parse --short HEAD').read().strip()},
          open(os.path.join(d, 'meta.json'), 'w'), indent=1)
print('stored', d)
